// Package c10: JSON in and out agrees with the JSON standard and round-trips.
//
// E1: every JSON document of a grammar covering the RFC 8259 productions up
// to a depth/width bound, every single-character edit of seed documents, and
// every DG value (CUE -> JSON). Oracle: Go's encoding/json (UseNumber).
package c10

import (
	"bytes"
	"encoding/json"
	gojson "encoding/json"
	"fmt"
	"io"
	"strings"
	"unicode/utf8"

	"cuelang.org/go/cue"
	"cuelang.org/go/cue/cuecontext"
	cuejson "cuelang.org/go/encoding/json"
	"cuelang.org/go/internal/verif/core"
	"cuelang.org/go/internal/verif/gen"
	"cuelang.org/go/internal/verif/tree"
)

func init() {
	core.Register(&core.Prop{
		ID: "C10",
		Rule: "E1 bounded-exhaustive: JSON documents = scalars (3 literals, 17 number spellings, strings of <=2 (quick) / <=3 segments from 24 segments: escapes, \\u0000, surrogate pairs, raw U+2028/2029, BOM, <, &, #, \\( ...) in arrays/objects of width<=2 depth<=2 with whitespace variants; every single-character deletion/insertion of 30 seed documents; " +
			"every DG value (scalars x containers) CUE->JSON. Non-trivial = documents with an escape, a non-ASCII rune, an exponent or nesting.",
		Assumptions: []string{"Go encoding/json (UseNumber, token stream) is the independent reader", "duplicate keys: agreeing duplicates must be accepted, conflicting ones may be rejected (CUE reads JSON as CUE)", "lone surrogate escapes are not claimed (not Unicode scalar values)"},
		Run:         run, Replay: replay,
		RequireOutcomes: []string{"decode:ok", "invalid:rejected", "encode:ok"},
		BudgetQuick:     150, BudgetThorough: 1500,
	})
}

type kase struct {
	Kind string `json:"kind"` // doc | stream | data
	Doc  string `json:"doc,omitempty"`
	Q    string `json:"q,omitempty"`
	CUE  string `json:"cue,omitempty"`
}

var numbers = []string{"0", "-0", "1", "-1", "10", "1.0", "0.10", "1e2", "1E+2", "1e-2", "1e400", "1e-400", "123456789012345678901", "1.7976931348623157e309", "-1.5", "0.1", "9223372036854775808"}

var segments = []string{"a", `\"`, `\\`, `\/`, `\b`, `\f`, `\n`, `\r`, `\t`, `\u0000`, `\u001f`, `\u007f`, " ", "\u2028", "\u2029", `\ud83d\ude00`, "\U0001F600", `\ufeff`, "\ufeff", "<", "&", "#", `\(`, "'", "é"}

func stringsUpTo(n int) []string {
	out := []string{`""`}
	for l := 1; l <= n; l++ {
		gen.Tuples(l, len(segments), func(ix []int) bool {
			var sb strings.Builder
			sb.WriteByte('"')
			for _, i := range ix {
				sb.WriteString(segments[i])
			}
			sb.WriteByte('"')
			out = append(out, sb.String())
			return true
		})
	}
	return out
}

var seedDocs = []string{
	`null`, `true`, `false`, `0`, `-1.5e+3`, `"a"`, `"é\n"`, `[]`, `{}`, `[1,2]`, `{"a":1}`, `{"a":{"b":[1,{"c":null}]}}`,
	`[1, "a", true, null, {"k": []}]`, `{"a":1,"b":2}`, `  {"a" : [ 1 , 2 ] }  `, `[[[[]]]]`, `"\ud83d\ude00"`, `1E2`, `0.5`, `{"":0}`,
	`{"a":1,"a":1}`, `[0.1e-2]`, `"\\"`, `"\/"`, `[true,false]`, `{"x":"y","z":[{}]}`, `-0`, `10`, `"<&>"`, `[null]`,
}

func run(r *core.Run) {
	segN := 4
	if r.Thorough() {
		segN = 5
	}
	strs := stringsUpTo(segN)
	do := func(kind, doc string) bool {
		if !r.Mine() {
			return !r.Expired()
		}
		c := kase{Kind: kind, Doc: doc, Q: fmt.Sprintf("%q", doc)}
		r.Guard(c, func() { checkDoc(r, c) })
		return true
	}
	r.Section(fmt.Sprintf("scalars: literals, %d numbers, %d strings", len(numbers), len(strs)))
	var scalars []string
	scalars = append(scalars, "null", "true", "false")
	scalars = append(scalars, numbers...)
	for _, s := range scalars {
		do("doc", s)
	}
	for _, s := range strs {
		do("doc", s)
	}
	// every \u escape at the boundaries of the encoding forms, and surrogate
	// pairs for every plane boundary (all 17 planes are reached through the
	// high surrogates d800..dbff)
	r.Section("escape boundary matrix: \\uXXXX code units (lower and upper case hex) and surrogate pairs high x low, as value and as key")
	for _, u := range []string{"0000", "0008", "001f", "0020", "007f", "0080", "00e9", "07ff", "0800", "2028", "d7ff", "e000", "fffd", "fffe", "ffff", "00E9", "FFFD", "D7FF"} {
		do("doc", `"\u`+u+`"`)
		do("doc", `{"\u`+u+`":1}`)
		do("doc", `"a\u`+u+`b"`)
	}
	for _, hi := range []string{"d800", "d801", "d83d", "d83f", "d840", "d842", "d87f", "d880", "d8c0", "d900", "da00", "db40", "db7f", "db80", "dbff", "DBFF"} {
		for _, lo := range []string{"dc00", "dc01", "de00", "dfb7", "dfff", "DFFF"} {
			do("doc", `"\u`+hi+`\u`+lo+`"`)
			do("doc", `{"\u`+hi+`\u`+lo+`":"x\u`+hi+`\u`+lo+`y"}`)
		}
	}
	// containers over a reduced element alphabet
	elems := []string{"null", "true", "0", "-0", "1.0", "1e400", `""`, `"a"`, `"\u0000"`, `"\ud83d\ude00"`, "\"\u2028\"", `"<"`, `"\ufeff"`, "\"\ufeff\"", `"\("`, `"#"`}
	keys := []string{`""`, `"a"`, `"b"`, `"\n"`, `"a b"`, `"#x"`, `"_h"`, `"é"`, `"1"`}
	r.Section("containers depth 1 (width<=2) and whitespace variants")
	var level1 []string
	add1 := func(s string) { level1 = append(level1, s); do("doc", s) }
	add1("[]")
	add1("{}")
	for _, a := range elems {
		add1("[" + a + "]")
		for _, b := range elems {
			add1("[" + a + "," + b + "]")
		}
	}
	for _, k := range keys {
		for _, a := range elems {
			add1("{" + k + ":" + a + "}")
		}
	}
	for _, k := range stringsUpTo(1) {
		add1("{" + k + ":1}")
		add1("{" + k + ":" + k + ",\"z\":[" + k + "]}")
	}
	for _, k := range stringsUpTo(1) {
		add1("{" + k + ":1}")
		add1("{" + k + ":" + k + ",\"z\":[" + k + "]}")
	}
	for _, k1 := range keys {
		for _, k2 := range keys {
			add1("{" + k1 + ":1," + k2 + ":2}") // includes duplicate keys (conflicting)
			add1("{" + k1 + ":1," + k2 + ":1}") // includes duplicate keys (agreeing)
		}
	}
	for _, ws := range []string{" ", "\t", "\r", "\n", "\r\n"} {
		do("doc", ws+"{"+ws+`"a"`+ws+":"+ws+"["+ws+"1"+ws+","+ws+"2"+ws+"]"+ws+"}"+ws)
	}
	r.Section("containers depth 2")
	inner := []string{"[]", "{}", "[1]", `{"a":1}`, `[null,"a"]`, `{"a":[],"b":{}}`, `[[1]]`, `{"a":{"a":1}}`, `[{"a":"\u0000"}]`}
	for _, a := range inner {
		do("doc", "["+a+"]")
		do("doc", `{"k":`+a+`}`)
		for _, b := range inner {
			do("doc", "["+a+","+b+"]")
			do("doc", `{"a":`+a+`,"b":`+b+`}`)
		}
	}
	r.Section("concatenated documents (stream decoder)")
	for _, a := range []string{"1", `"a"`, "{}", "[1]", "null", `{"a":1}`} {
		for _, b := range []string{"2", `"b"`, "[]", `{"b":2}`, "true"} {
			for _, sep := range []string{" ", "\n", ""} {
				if r.Mine() {
					c := kase{Kind: "stream", Doc: a + sep + b}
					r.Guard(c, func() { checkStream(r, c, []string{a, b}) })
				}
			}
		}
	}
	r.Section("single-character edits of 30 seed documents")
	inserts := []string{",", "+", "0", ".", "'", "\"", "]", "}", "\\", " ", "e", "-", ":"}
	for _, d := range seedDocs {
		for i := 0; i <= len(d); i++ {
			if i < len(d) {
				do("doc", d[:i]+d[i+1:])
			}
			for _, ins := range inserts {
				do("doc", d[:i]+ins+d[i:])
			}
		}
	}
	r.Section("DG values: CUE -> JSON")
	scal := gen.ScalarData(gen.HostileStrings)
	for _, d := range scal {
		if r.Mine() {
			c := kase{Kind: "data", CUE: d.CUE()}
			r.Guard(c, func() { checkData(r, c, d) })
		}
	}
	// every hostile string also as an object key (keys and values take
	// different paths through the encoder)
	for _, k := range gen.HostileStrings {
		for _, d := range []gen.Data{gen.DStruct(k, gen.DInt("1")), gen.DStruct("x", gen.DStruct(k, gen.DList(gen.DStr(k)))), gen.DStruct(k, gen.DStr(k), "z", gen.DInt("2"))} {
			if r.Mine() {
				c := kase{Kind: "data", CUE: d.CUE()}
				r.Guard(c, func() { checkData(r, c, d) })
			}
		}
	}
	small := gen.ScalarData([]string{"", "a", "<", "\u2028", "\n", "\U0001F600", "null"})
	keysD := []string{"", "a", "a b", "#x", "_h", "1", "é", "\n", "<"}
	gen.Containers(small, keysD, 2, func(d gen.Data) bool {
		if !r.Mine() {
			return !r.Expired()
		}
		c := kase{Kind: "data", CUE: d.CUE()}
		r.Guard(c, func() { checkData(r, c, d) })
		return true
	})
	{
		r.Section("DG values nested: containers of containers")
		var lvl []gen.Data
		gen.Containers(gen.ScalarData([]string{"a", "\u0000"})[:8], []string{"a", ""}, 2, func(d gen.Data) bool { lvl = append(lvl, d); return len(lvl) < 400 })
		gen.Containers(lvl, []string{"k", "a b"}, 2, func(d gen.Data) bool {
			if !r.Mine() {
				return !r.Expired()
			}
			c := kase{Kind: "data", CUE: d.CUE()}
			r.Guard(c, func() { checkData(r, c, d) })
			return true
		})
	}
}

func replay(r *core.Run, raw json.RawMessage) {
	var c kase
	if err := json.Unmarshal(raw, &c); err != nil {
		r.EngineError(err.Error())
		return
	}
	switch c.Kind {
	case "doc":
		checkDoc(r, c)
	case "stream":
		r.EngineError("stream cases are replayed through run only")
	case "data":
		// re-read the CUE text
		ctx := cuecontext.New()
		v := ctx.CompileString(c.CUE)
		n, err := tree.FromCUE(v)
		if err != nil {
			r.EngineError(err.Error())
			return
		}
		checkEncoded(r, c, v, n)
	}
}

func nontrivial(doc string) bool {
	return strings.ContainsAny(doc, "\\eE[{") || !isASCII(doc)
}

func isASCII(s string) bool {
	for i := 0; i < len(s); i++ {
		if s[i] >= 0x80 {
			return false
		}
	}
	return true
}

func hasLoneSurrogate(doc string) bool {
	// walk the escapes so that an escaped backslash is not misread
	for i := 0; i < len(doc); i++ {
		if doc[i] != '\\' || i+1 >= len(doc) {
			continue
		}
		if doc[i+1] != 'u' {
			i++
			continue
		}
		if i+6 > len(doc) {
			return false
		}
		h := strings.ToLower(doc[i+2 : i+6])
		switch {
		case h >= "d800" && h <= "dbff":
			if i+12 <= len(doc) && doc[i+6] == '\\' && doc[i+7] == 'u' {
				l := strings.ToLower(doc[i+8 : i+12])
				if l >= "dc00" && l <= "dfff" {
					i += 11
					continue
				}
			}
			return true
		case h >= "dc00" && h <= "dfff":
			return true
		}
		i += 5
	}
	return false
}

func checkDoc(r *core.Run, c kase) {
	doc := []byte(c.Doc)
	r.Trans(1)
	valid := gojson.Valid(doc)
	ctx := cuecontext.New()
	expr, err := cuejson.Extract("x.json", doc)
	if !valid {
		if err == nil {
			// may still be rejected at build time? The property: invalid JSON is rejected.
			r.Violation(fmt.Sprintf("invalid JSON accepted: %q", c.Doc), c, "encoding/json.Valid rejects the document, json.Extract accepts it")
			return
		}
		r.Outcome("invalid:rejected")
		return
	}
	if !utf8.Valid(doc) {
		// encoding/json tolerates invalid UTF-8 inside strings; RFC 8259
		// requires UTF-8, so such documents are outside the claim.
		r.Unclaimed("document that is not valid UTF-8")
		return
	}
	if hasLoneSurrogate(c.Doc) {
		r.Unclaimed("document with a lone surrogate escape")
		return
	}
	want, dups, werr := tree.FromJSON(doc)
	if werr != nil {
		r.EngineError("oracle cannot read a valid document: " + werr.Error())
		return
	}
	if err != nil {
		r.Violation(fmt.Sprintf("valid JSON rejected by Extract: %s", classify(c.Doc)), c, fmt.Sprintf("%q: %v", c.Doc, err))
		return
	}
	v := ctx.BuildExpr(expr)
	got, gerr := tree.FromCUE(v)
	if gerr != nil {
		if dups {
			r.Outcome("decode:duplicate-keys-rejected")
			return
		}
		r.Violation(fmt.Sprintf("valid JSON does not evaluate: %s", classify(c.Doc)), c, fmt.Sprintf("%q: %v", c.Doc, gerr))
		return
	}
	if !tree.Equal(got, want, tree.Options{}) {
		r.Violation(fmt.Sprintf("decoded data differs: %s", classify(c.Doc)), c, fmt.Sprintf("doc %q\ncue:  %s\njson: %s", c.Doc, got, want))
		return
	}
	r.Outcome("decode:ok")
	// marshal what was decoded
	out, err := v.MarshalJSON()
	if err != nil {
		r.Violation("MarshalJSON fails on decoded data: "+classify(c.Doc), c, err.Error())
		return
	}
	back, _, berr := tree.FromJSON(out)
	if berr != nil || !tree.Equal(back, want, tree.Options{}) {
		r.Violation("re-marshalled document differs: "+classify(c.Doc), c, fmt.Sprintf("doc %q -> %q (%v)", c.Doc, out, berr))
		return
	}
	r.State(c.Doc)
	if nontrivial(c.Doc) {
		r.Nontrivial()
		r.Sample(map[string]string{"doc": c.Doc, "tree": want.String()})
	}
}

// classify names the feature of a document for violation keys.
func classify(doc string) string {
	var f []string
	for _, p := range []struct{ sub, name string }{{"\ufeff", "raw U+FEFF"}, {`\ufeff`, "U+FEFF escape"}, {"\u2028", "raw U+2028"}, {"\u2029", "raw U+2029"},
		{`\u0000`, `\u0000`}, {`\ud83d`, "surrogate pair"}, {`\/`, `\/`}, {`\(`, `\(`}, {"#", "#"}, {"e4", "big exponent"}, {"E", "E exponent"}, {"-0", "-0"}} {
		if strings.Contains(doc, p.sub) {
			f = append(f, p.name)
		}
	}
	if len(f) == 0 {
		return fmt.Sprintf("%q", doc)
	}
	return "[" + strings.Join(f, ",") + "] " + fmt.Sprintf("%q", doc)
}

func checkStream(r *core.Run, c kase, docs []string) {
	r.Trans(1)
	dec := cuejson.NewDecoder(nil, "x.json", strings.NewReader(c.Doc))
	ctx := cuecontext.New()
	// oracle: encoding/json stream
	gd := gojson.NewDecoder(strings.NewReader(c.Doc))
	gd.UseNumber()
	var want []tree.Node
	for {
		var raw gojson.RawMessage
		if err := gd.Decode(&raw); err == io.EOF {
			break
		} else if err != nil {
			want = nil
			break
		}
		n, _, _ := tree.FromJSON(raw)
		want = append(want, n)
	}
	var got []tree.Node
	for {
		e, err := dec.Extract()
		if err == io.EOF {
			break
		}
		if err != nil {
			if want == nil {
				r.Outcome("invalid:rejected")
				return
			}
			r.Violation(fmt.Sprintf("valid JSON stream rejected: %q", c.Doc), c, err.Error())
			return
		}
		n, err := tree.FromCUE(ctx.BuildExpr(e))
		if err != nil {
			r.Violation(fmt.Sprintf("stream element does not evaluate: %q", c.Doc), c, err.Error())
			return
		}
		got = append(got, n)
	}
	if want == nil {
		r.Violation(fmt.Sprintf("invalid JSON stream accepted: %q", c.Doc), c, "")
		return
	}
	if len(got) != len(want) {
		r.Violation(fmt.Sprintf("stream splits differently: %q", c.Doc), c, fmt.Sprintf("cue %d docs, encoding/json %d docs", len(got), len(want)))
		return
	}
	for i := range got {
		if !tree.Equal(got[i], want[i], tree.Options{}) {
			r.Violation(fmt.Sprintf("stream element differs: %q", c.Doc), c, fmt.Sprintf("%s vs %s", got[i], want[i]))
			return
		}
	}
	r.Outcome("decode:ok")
}

func checkData(r *core.Run, c kase, d gen.Data) {
	ctx := cuecontext.New()
	v := ctx.CompileString(c.CUE)
	if err := v.Err(); err != nil {
		r.EngineError("generator produced invalid CUE: " + c.CUE + ": " + err.Error())
		return
	}
	checkEncoded(r, c, v, tree.FromData(d))
}

func checkEncoded(r *core.Run, c kase, v cue.Value, want tree.Node) {
	r.Trans(1)
	out, err := v.MarshalJSON()
	if err != nil {
		r.Violation("MarshalJSON fails on concrete data: "+c.CUE, c, err.Error())
		return
	}
	if !gojson.Valid(out) {
		r.Violation("MarshalJSON output is not valid JSON: "+c.CUE, c, string(out))
		return
	}
	got, _, gerr := tree.FromJSON(out)
	if gerr != nil || !tree.Equal(got, want, tree.Options{}) {
		r.Violation("JSON output reads back differently: "+c.CUE, c, fmt.Sprintf("cue %s\njson %s\nreads back %s (%v)\nwant %s", c.CUE, out, got, gerr, want))
		return
	}
	for _, esc := range []string{`\u003c`, `\u003e`, `\u0026`} {
		if bytes.Contains(out, []byte(esc)) {
			r.Violation("JSON output uses HTML escaping: "+c.CUE, c, string(out))
			return
		}
	}
	// Decode into Go values as well
	var anyv any
	if err := v.Decode(&anyv); err != nil {
		r.Violation("Value.Decode(&any) fails on concrete data: "+c.CUE, c, err.Error())
		return
	}
	// and back through the CUE JSON decoder
	expr, err := cuejson.Extract("x.json", out)
	if err != nil {
		r.Violation("CUE rejects its own JSON output: "+c.CUE, c, fmt.Sprintf("%s: %v", out, err))
		return
	}
	back, err := tree.FromCUE(v.Context().BuildExpr(expr))
	if err != nil || !tree.Equal(back, want, tree.Options{}) {
		r.Violation("CUE reads its own JSON output differently: "+c.CUE, c, fmt.Sprintf("%s -> %s (%v)", out, back, err))
		return
	}
	r.Outcome("encode:ok")
	r.State(string(out))
	if nontrivial(string(out)) {
		r.Nontrivial()
		r.Sample(map[string]string{"cue": c.CUE, "json": string(out)})
	}
}
