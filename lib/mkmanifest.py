#!/usr/bin/env python3
"""Regenerates /verif/MANIFEST.json from the table below (single source of
truth for what is claimed). Run after adding a check."""
import json, os
CHECKS = {
 "C09": dict(engine="enum",
   technique="bounded-exhaustive enumeration of token strings / strings x quoting forms / literal spellings on the real scanner, parser and literal package (explicit-state, no sampling)",
   text="Every token string up to the length bound, every string over a hostile rune alphabet under every quoting form and every literal-candidate spelling up to the bound is executed on the real code and checked against position invariants, Unquote(Quote(s))==s and three-way validity agreement. Exhaustive within the stated alphabet/bound; says nothing beyond it.",
   note="Trusts: Go regexp/big for the tiny independent oracles; alphabets listed in coverage.sections. String forms checked on valid UTF-8 only (documented lossy otherwise).",
   ref="DESIGN.md §3 C09"),
}
PENDING = {}
ALL = ["C%02d" % i for i in range(1, 21)]
def main():
    checks = []
    for pid in ALL:
        c = CHECKS.get(pid)
        if not c: continue
        checks.append({
            "property_id": pid,
            "quick_cmd": f"./check {pid} --tier quick",
            "thorough_cmd": f"./check {pid} --tier thorough",
            "evidence_file": f"/verif/evidence/{pid}.json",
            "replay_cmd_template": f"./check {pid} --replay {{path}}",
            "engine": c["engine"],
            "level_claimed": {"category": c.get("category", "model_checking"), "text": c["text"], "design_ref": c["ref"]},
            "level_note": c["note"],
            "technique": c["technique"],
        })
    na = [{"property_id": p, "reason": PENDING.get(p, "check not built yet in this session (planned, see DESIGN.md §3); not claimed until its harness passes on the unchanged tree and has caught a seeded change")}
          for p in ALL if p not in CHECKS]
    m = {
      "version": 1,
      "setup_cmd": "./setup.sh",
      "hooks": {
        "guard": "verif",
        "enable": "go build -overlay /verif/.work/overlay*.json (harnesses, shims and instrumented copies of repository files are virtual files generated at check time; nothing is written into /repo)",
        "baseline_off_cmd": json.load(open("/root/.vp/BASELINE.json"))["cmd"],
        "source_commits": [],
        "add_only": True,
      },
      "engines": [
        {"name": "enum", "path": "/verif/src/core", "serves_properties": [p for p in ALL if CHECKS.get(p, {}).get("engine") == "enum"],
         "kind_free_text": "sharded bounded-exhaustive enumerator with per-case guards, evidence writer, known-findings and replay"},
      ],
      "checks": checks,
      "not_applicable": na,
      "notes": "All checks are bounded-exhaustive explorations on the real implementation (see DESIGN.md). exit 0 held / 1 VIOLATION / 2 ENGINE-ERROR.",
    }
    json.dump(m, open("/verif/MANIFEST.json", "w"), indent=1)
    print("checks:", [c["property_id"] for c in checks])
main()
