#!/bin/bash
# muttest.sh <ID> <repo-file> <old-text> <new-text> [tier]: apply a one-off
# textual change to /repo, run the check, revert. Prints DETECTED or MISSED.
# no other check may build from /repo while it is modified
. /verif/lib/env.sh; exec 9>"$WORK/build.lock"; flock 9; export VERIF_BUILD_LOCKED=1
ID="$1"; F="/repo/$2"; OLD="$3"; NEW="$4"; TIER="${5:-quick}"
python3 - "$F" "$OLD" "$NEW" <<'PY' || exit 2
import sys
p,old,new=sys.argv[1:4]
s=open(p).read()
if s.count(old)!=1:
    print("muttest: old text occurs %d times"%s.count(old)); sys.exit(1)
open(p,'w').write(s.replace(old,new))
PY
out=$(cd /verif && ./check "$ID" --tier "$TIER" 2>&1); rc=$?
git -C /repo checkout -- "$2"
echo "$out" | grep -E "^VIOLATION|^  key:|ENGINE|^C[0-9]+ tier" | head -6
if [ $rc -eq 1 ]; then echo "DETECTED rc=$rc"; else echo "MISSED rc=$rc"; fi
