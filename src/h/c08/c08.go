// Package c08: cue fmt is idempotent and never changes what a file means.
//
// E1: (a) every CUE source of the repository corpus and every generated
// program, unmutated; (b) every single-gap layout mutation (each gap between
// adjacent tokens set to one of: nothing, space, newline, blank line, line
// comment) of a seed set, and every pair of mutations of small seeds.
// Oracle: if parse(x) succeeds then format(x) succeeds, the position-free AST
// dump (with every comment group's owner, slot and text) is unchanged,
// format is idempotent; with Simplify() the output parses, is idempotent and
// evaluates to the same value.
package c08

import (
	"bytes"
	"encoding/json"
	"fmt"
	"reflect"
	"regexp"
	"sort"
	"strings"

	"cuelang.org/go/cue/ast"
	"cuelang.org/go/cue/cuecontext"
	"cuelang.org/go/cue/format"
	"cuelang.org/go/cue/literal"
	"cuelang.org/go/cue/parser"
	"cuelang.org/go/cue/scanner"
	"cuelang.org/go/cue/token"
	"cuelang.org/go/internal/verif/canon"
	"cuelang.org/go/internal/verif/core"
	"cuelang.org/go/internal/verif/gen"
)

func init() {
	core.Register(&core.Prop{
		ID: "C08",
		Rule: "E1: every .cue source / txtar .cue section of the repository (<=20 KiB) and every generated program unmutated; every single-gap mutation (5 gap fillers) at every token gap of the seed set; all pairs of gap mutations for small seeds (thorough). " +
			"Non-trivial = inputs that parse and whose formatted text differs from the input.",
		Assumptions: []string{"AST dump compares node kinds, literals, identifiers, operators, attributes and for every comment group its owner node, Doc flag, slot (Position) and text; not the Line flag (same-line-ness is whitespace)",
			"import specs are compared as a sorted list (fmt sorts imports)"},
		Run:         run, Replay: replay,
		RequireOutcomes: []string{"formatted-changed", "formatted-same", "unparseable"},
		BudgetQuick:     200, BudgetThorough: 1500,
	})
}

type kase struct {
	Name string `json:"name"`
	Src  string `json:"src"`
	Ctx  string `json:"ctx,omitempty"` // mutated gap: filler and neighbouring tokens
}

var fillers = []string{"", " ", "\n", "\n\n", " // c\n"}

var syntaxSeeds = []string{
	"package p\n\nimport \"strings\"\n\na: strings.ToUpper(\"x\")\n",
	"import (\n\t\"list\"\n\t\"strings\"\n)\na: list.Sum([1, 2])\nb: strings.Join([\"a\"], \",\")\n",
	"a: {b: 1, c: 2}\nd: [1, 2, 3]\ne: f(1, 2,\n\t3)\n",
	"// doc\na: 1 // line\n// trailing\n",
	"a: {\n\t// inner\n}\nb: [\n\t// in list\n]\n",
	"x: [for k, v in y if v > 1 {k}]\nz: {for k, v in y {\"\\(k)\": v}}\n",
	"a: b.c.d\ne: b[\"c\"]\nf: g[1:2]\nh: g[:1]\n",
	"a: 1 + 2*3 - -4 / (5 + 6)\nb: !c && d || e\nc: f =~ \"x\" & g !~ \"y\"\n",
	"a: *1 | 2 | 3\nb: >=1 & <=2 | string\n",
	"X=a: 1\nb: Y={c: Y.c}\n[Z=string]: Z\n",
	"a: 1 @go(A) @json(a,omitempty)\n@file(x)\n",
	"a?: int\nb!: string\n#D: {_h: 1, #e: 2}\n...\n",
	"let X = 1\na: X\nif a > 0 {b: 2}\n",
	"a: \"\"\"\n\tmulti\n\tline \\(b)\n\t\"\"\"\nc: #\"raw \\#(b)\"#\nd: 'bytes'\n",
	"a: {b: {c: {d: 1}}}\n\"quoted\": 1\n\"a-b\": 2\n(c): 3\n",
	"a: f()\nb: g(\n\t1,\n)\nc: [\n\t1,\n\t2,\n]\n",
	"a: 1, b: 2\nc: {d: 1, e: 2,}\n",
	"a: _|_\nb: _\nc: null\nd: true\ne: 1.5e3\nf: 0x1F\ng: 1Ki\n",
	"a: [...int]\nb: [1, ...]\nc: {...}\nd: [string]: int\n",
	"{\n\ta: 1\n}\n",
}

// operatorSeeds: every unary operator applied to every unary operand and
// every binary operator followed by every unary operator (tokens that must not
// fuse when printed: `> =~`, `< -`, `1 - -1`, `! =~` ...).
func operatorSeeds() []string {
	un := []string{"<", "<=", ">", ">=", "!=", "=~", "!~", "!", "-", "+", "*"}
	bin := []string{"+", "-", "*", "/", "&", "|", "&&", "||", "==", "!=", "<", "<=", ">", ">=", "=~", "!~"}
	var out []string
	for _, a := range un {
		for _, b := range un {
			out = append(out, fmt.Sprintf("x: %s %s y\n", a, b))
			out = append(out, fmt.Sprintf("x: [1, %s %s y, 3]\n", a, b))
		}
		out = append(out, fmt.Sprintf("x: %s (y)\n", a), fmt.Sprintf("x: %s y.z\n", a), fmt.Sprintf("x: %s -1\n", a), fmt.Sprintf("x: %s \"s\"\n", a))
	}
	for _, b := range bin {
		for _, a := range un {
			out = append(out, fmt.Sprintf("x: y %s %s z\n", b, a))
		}
	}
	return out
}

func seeds(r *core.Run) []gen.CorpusFile {
	var out []gen.CorpusFile
	for i, s := range syntaxSeeds {
		out = append(out, gen.CorpusFile{Name: fmt.Sprintf("syntax-seed-%d", i), Src: []byte(s)})
	}
	for i, s := range operatorSeeds() {
		out = append(out, gen.CorpusFile{Name: fmt.Sprintf("operator-seed-%d", i), Src: []byte(s)})
	}
	pool := gen.Pool("order")
	n := 0
	gen.Multisets(2, len(pool), func(ix []int) bool {
		n++
		if n%97 == 0 { // a spread of two-declaration programs
			out = append(out, gen.CorpusFile{Name: fmt.Sprintf("pg-%d-%d", ix[0], ix[1]), Src: []byte(gen.Render([]gen.Decl{pool[ix[0]], pool[ix[1]]}))})
		}
		return true
	})
	return out
}

func run(r *core.Run) {
	corpus := gen.Corpus([]string{"cue", "doc", "encoding", "internal", "pkg", "tools", "cmd", "mod", "cuego"}, 20000)
	r.Section(fmt.Sprintf("corpus unmutated (%d sources)", len(corpus)))
	for _, f := range corpus {
		if r.Mine() {
			c := kase{Name: f.Name, Src: string(f.Src)}
			r.Guard(c, func() { check(r, c, true) })
		}
	}
	sd := seeds(r)
	r.Section(fmt.Sprintf("seeds unmutated + single-gap mutations (%d seeds)", len(sd)))
	for _, f := range sd {
		if r.Mine() {
			c := kase{Name: f.Name, Src: string(f.Src)}
			r.Guard(c, func() { check(r, c, true) })
		}
		gaps := tokenGaps(f.Src)
		for gi := range gaps {
			for fi := range fillers {
				if !r.Mine() {
					continue
				}
				c := kase{Name: fmt.Sprintf("%s gap%d=%q", f.Name, gi, fillers[fi]), Src: mutate(f.Src, gaps, []int{gi}, []int{fi}), Ctx: ctxOf(gaps[gi], fi)}
				r.Guard(c, func() { check(r, c, false) })
			}
		}
		if r.Expired() {
			return
		}
	}
	// corpus single-gap mutations: small files, quick = every 40th file
	step := 40
	if r.Thorough() {
		step = 4
	}
	r.Section(fmt.Sprintf("corpus single-gap mutations (every %dth source <=1500 bytes)", step))
	k := 0
	for _, f := range corpus {
		if len(f.Src) > 1500 {
			continue
		}
		k++
		if k%step != 0 {
			continue
		}
		gaps := tokenGaps(f.Src)
		for gi := range gaps {
			for fi := range fillers {
				if !r.Mine() {
					continue
				}
				c := kase{Name: fmt.Sprintf("%s gap%d=%q", f.Name, gi, fillers[fi]), Src: mutate(f.Src, gaps, []int{gi}, []int{fi}), Ctx: ctxOf(gaps[gi], fi)}
				r.Guard(c, func() { check(r, c, false) })
			}
		}
		if r.Expired() {
			return
		}
	}
	if r.Thorough() {
		r.Section("syntax seeds: all pairs of gap mutations")
		for _, f := range sd[:len(syntaxSeeds)] {
			gaps := tokenGaps(f.Src)
			for g1 := range gaps {
				for g2 := g1 + 1; g2 < len(gaps); g2++ {
					for f1 := range fillers {
						for f2 := range fillers {
							if !r.Mine() {
								continue
							}
							c := kase{Name: fmt.Sprintf("%s gap%d=%q gap%d=%q", f.Name, g1, fillers[f1], g2, fillers[f2]), Src: mutate(f.Src, gaps, []int{g1, g2}, []int{f1, f2}), Ctx: ctxOf(gaps[g1], f1) + " + " + ctxOf(gaps[g2], f2)}
							r.Guard(c, func() { check(r, c, false) })
						}
					}
				}
				if r.Expired() {
					return
				}
			}
		}
	}
}

func replay(r *core.Run, raw json.RawMessage) {
	var c kase
	if err := json.Unmarshal(raw, &c); err != nil {
		r.EngineError(err.Error())
		return
	}
	check(r, c, true)
}

// gap is the whitespace-only byte range between two adjacent tokens.
type gap struct {
	start, end int
	prev, next string // token classes
}

func tokClass(tok token.Token, lit string) string {
	switch tok {
	case token.IDENT:
		return "IDENT"
	case token.INT, token.FLOAT:
		return "NUM"
	case token.STRING, token.INTERPOLATION:
		return "STRING"
	case token.COMMENT:
		return "COMMENT"
	case token.ATTRIBUTE:
		return "ATTR"
	}
	if lit != "" && tok.IsKeyword() {
		return lit
	}
	return tok.String()
}

func ctxOf(g gap, fi int) string {
	f := map[int]string{0: "nothing", 1: "space", 2: "newline", 3: "blank line", 4: "line comment"}[fi]
	return fmt.Sprintf("%s between '%s' and '%s'", f, g.prev, g.next)
}

// tokenGaps returns the whitespace-only gaps between adjacent tokens.
func tokenGaps(src []byte) []gap {
	var s scanner.Scanner
	f := token.NewFile("x.cue", -1, len(src))
	s.Init(f, src, func(token.Pos, string, []interface{}) {}, scanner.ScanComments)
	var out []gap
	prevEnd := -1
	prevClass := ""
	for {
		pos, tok, lit := s.Scan()
		if tok == token.EOF {
			break
		}
		if tok == token.COMMA && lit == "\n" {
			continue // auto-inserted
		}
		off := pos.Offset()
		l := len(lit)
		if l == 0 {
			l = len(tok.String())
		}
		if prevEnd >= 0 && off >= prevEnd && len(bytes.TrimSpace(src[prevEnd:off])) == 0 {
			out = append(out, gap{prevEnd, off, prevClass, tokClass(tok, lit)})
		}
		prevEnd = off + l
		prevClass = tokClass(tok, lit)
		if tok == token.COMMENT {
			// a line comment must keep its newline
			prevEnd = -1
		}
	}
	return out
}

func mutate(src []byte, gaps []gap, which, fill []int) string {
	var sb strings.Builder
	last := 0
	for i, g := range which {
		sb.Write(src[last:gaps[g].start])
		sb.WriteString(fillers[fill[i]])
		last = gaps[g].end
	}
	sb.Write(src[last:])
	return sb.String()
}

func key(kind string, c kase) string {
	n := c.Name
	if i := strings.Index(n, " gap"); i >= 0 {
		n = n[:i] + " (mutated: " + c.Ctx + ")"
	}
	return kind + ": " + n
}

func check(r *core.Run, c kase, semantic bool) {
	src := []byte(c.Src)
	f1, err := parser.ParseFile("x.cue", src, parser.ParseComments)
	if err != nil {
		r.Outcome("unparseable")
		return
	}
	r.Trans(1)
	out, err := format.Source(src)
	if err != nil {
		r.Violation(key("format fails on parseable input", c), c, err.Error())
		return
	}
	f2, err := parser.ParseFile("x.cue", out, parser.ParseComments)
	if err != nil {
		tag := ""
		if bytes.Contains(out, []byte("// c]")) {
			tag = " [line comment emitted before the closing bracket of a label]"
		}
		r.Violation(key("formatted output does not parse"+tag, c), c, fmt.Sprintf("%v\n--- input ---\n%s\n--- output ---\n%s", err, c.Src, out))
		return
	}
	d1, d2 := Dump(f1), Dump(f2)
	if d1 != d2 {
		r.Violation(key("formatting changes the syntax tree", c), c, fmt.Sprintf("%s\n--- input ---\n%s\n--- output ---\n%s", firstDiff(d1, d2), c.Src, out))
		return
	}
	if c1, c2 := CommentInventory(f1), CommentInventory(f2); c1 != c2 {
		r.Violation(key("formatting loses, duplicates or moves a comment to another declaration", c), c, fmt.Sprintf("comments before: %s\ncomments after:  %s\n--- input ---\n%s\n--- output ---\n%s", c1, c2, c.Src, out))
		return
	}
	out2, err := format.Source(out)
	if err != nil || !bytes.Equal(out, out2) {
		tag := ""
		switch {
		case err != nil:
		case strings.ReplaceAll(string(out), ",\n", "\n") == strings.ReplaceAll(string(out2), ",\n", "\n"):
			tag = " [second pass only adds a trailing comma]"
		case stripWS(string(out)) == stripWS(string(out2)):
			tag = " [second pass changes whitespace only]"
		}
		r.Violation(key("format is not idempotent"+tag, c), c, fmt.Sprintf("--- input ---\n%s\n--- once ---\n%s\n--- twice ---\n%s\nerr=%v", c.Src, out, out2, err))
		return
	}
	// -s
	s1, err := format.Source(src, format.Simplify())
	if err != nil {
		r.Violation(key("format -s fails on parseable input", c), c, err.Error())
		return
	}
	if _, err := parser.ParseFile("x.cue", s1, parser.ParseComments); err != nil {
		r.Violation(key("format -s output does not parse", c), c, fmt.Sprintf("%v\n--- output ---\n%s", err, s1))
		return
	}
	s2, err := format.Source(s1, format.Simplify())
	if err != nil || !bytes.Equal(s1, s2) {
		if err == nil && stripWS(strings.ReplaceAll(string(s1), ",", "")) == stripWS(strings.ReplaceAll(string(s2), ",", "")) {
			r.Violation(key("format -s is not idempotent [second pass changes whitespace/commas only]", c), c, fmt.Sprintf("--- input ---\n%s\n--- once ---\n%s\n--- twice ---\n%s", c.Src, s1, s2))
			return
		}
		r.Violation(key("format -s is not idempotent", c), c, fmt.Sprintf("--- input ---\n%s\n--- once ---\n%s\n--- twice ---\n%s\nerr=%v", c.Src, s1, s2, err))
		return
	}
	if semantic && !bytes.Equal(s1, out) {
		ctx := cuecontext.New()
		v1 := ctx.CompileBytes(src)
		if canon.ErrClass(v1) == "" {
			cn := canon.New(ctx, canon.Opts{})
			a, b := topPat.ReplaceAllString(cn.Canon(v1), ""), topPat.ReplaceAllString(cn.Canon(ctx.CompileBytes(s1)), "")
			a, b = strings.ReplaceAll(a, ";;", ";"), strings.ReplaceAll(b, ";;", ";")
			if a != b {
				r.Violation(key("format -s changes the value", c), c, fmt.Sprintf("--- input ---\n%s\n--- simplified ---\n%s\ncanon before: %s\ncanon after:  %s", c.Src, s1, a, b))
				return
			}
		}
	}
	if bytes.Equal(out, src) {
		r.Outcome("formatted-same")
	} else {
		r.Outcome("formatted-changed")
		r.Nontrivial()
		r.Sample(map[string]string{"name": c.Name, "input": head(c.Src, 200), "formatted": head(string(out), 200)})
	}
	r.State(string(out))
}

// topPat matches a pattern constraint `[string]: _` / `[_]: _` in a canon
// dump: -s documents rewriting it to `...`, which admits the same fields.
var topPat = regexp.MustCompile(`;?\[k\((string|_)\)\[[01?i]*\]\]:k\(_\)\[1*\],?`)

func stripWS(s string) string {
	return strings.Map(func(r rune) rune {
		if r == ' ' || r == '\t' || r == '\n' {
			return -1
		}
		return r
	}, s)
}

// CommentInventory lists every comment with the index of the top-level
// declaration it belongs to (-1: file level), as a sorted multiset.
func CommentInventory(f *ast.File) string {
	var items []string
	add := func(n ast.Node, top int) {
		ast.Walk(n, func(x ast.Node) bool {
			if _, ok := x.(*ast.CommentGroup); ok {
				return false
			}
			for _, cg := range ast.Comments(x) {
				for _, cm := range cg.List {
					items = append(items, fmt.Sprintf("%d:%s", top, strings.TrimSpace(cm.Text)))
				}
			}
			return true
		}, nil)
	}
	for _, cg := range ast.Comments(f) {
		for _, cm := range cg.List {
			items = append(items, fmt.Sprintf("-1:%s", strings.TrimSpace(cm.Text)))
		}
	}
	idx := 0
	for _, d := range f.Decls {
		if id, ok := d.(*ast.ImportDecl); ok && len(id.Specs) == 0 {
			add(d, -1)
			continue
		}
		add(d, idx)
		idx++
	}
	sort.Strings(items)
	return strings.Join(items, " | ")
}

func head(s string, n int) string {
	if len(s) > n {
		return s[:n] + "…"
	}
	return s
}

func firstDiff(a, b string) string {
	la, lb := strings.Split(a, "\n"), strings.Split(b, "\n")
	for i := 0; i < len(la) && i < len(lb); i++ {
		if la[i] != lb[i] {
			lo := i - 3
			if lo < 0 {
				lo = 0
			}
			hiA, hiB := i+4, i+4
			if hiA > len(la) {
				hiA = len(la)
			}
			if hiB > len(lb) {
				hiB = len(lb)
			}
			return fmt.Sprintf("first tree difference at dump line %d:\n--- before ---\n%s\n--- after ---\n%s", i, strings.Join(la[lo:hiA], "\n"), strings.Join(lb[lo:hiB], "\n"))
		}
	}
	return fmt.Sprintf("tree dumps differ in length: %d vs %d lines", len(la), len(lb))
}

// ---------- position-free AST dump ----------

var mlIndent = regexp.MustCompile(`\n[ \t]*`)
var posType = reflect.TypeOf(token.Pos{})
var nodeType = reflect.TypeOf((*ast.Node)(nil)).Elem()

// Dump renders a syntax tree without positions; every node lists its comment
// groups with Doc flag, slot and text.
func Dump(n ast.Node) string {
	var sb strings.Builder
	dump(&sb, reflect.ValueOf(n), 0)
	return sb.String()
}

func indent(sb *strings.Builder, d int) { sb.WriteString(strings.Repeat(" ", d)) }

func dump(sb *strings.Builder, v reflect.Value, d int) {
	if !v.IsValid() {
		return
	}
	switch v.Kind() {
	case reflect.Interface:
		if v.IsNil() {
			return
		}
		dump(sb, v.Elem(), d)
	case reflect.Ptr:
		if v.IsNil() {
			return
		}
		if v.Type().Implements(nodeType) {
			node := v.Interface().(ast.Node)
			if _, ok := node.(*ast.CommentGroup); ok {
				return // handled with the owner
			}
			if id, ok := node.(*ast.ImportDecl); ok && len(id.Specs) == 0 {
				return // fmt drops an empty import declaration
			}
			indent(sb, d)
			sb.WriteString(v.Elem().Type().Name())
			sb.WriteString("\n")
			if id, ok := node.(*ast.Ident); ok {
				indent(sb, d+1)
				fmt.Fprintf(sb, "Name=%q\n", id.Name)
				return
			}
		}
		dump(sb, v.Elem(), d)
	case reflect.Struct:
		t := v.Type()
		for i := 0; i < t.NumField(); i++ {
			f := t.Field(i)
			if !f.IsExported() || f.Type == posType {
				continue
			}
			fv := v.Field(i)
			switch fv.Kind() {
			case reflect.String, reflect.Bool, reflect.Int, reflect.Int8, reflect.Int64:
				if f.Name == "Line" || f.Name == "Doc" || f.Name == "Position" {
					continue
				}
				indent(sb, d+1)
				if f.Name == "Value" && fv.Kind() == reflect.String && t.Name() == "BasicLit" && v.FieldByName("Kind").Interface() == token.STRING {
					// string literals are compared by value when they are complete
					// literals: fmt may re-quote a label (#"a\b"# -> "a\\b").
					if u, err := literal.Unquote(fv.String()); err == nil {
						fmt.Fprintf(sb, "%s=str:%q\n", f.Name, u)
						continue
					}
				}
				if f.Name == "Value" && fv.Kind() == reflect.String && strings.Contains(fv.String(), "\n") {
					// multi-line string (fragment): indentation is whitespace
					fmt.Fprintf(sb, "%s=%q\n", f.Name, mlIndent.ReplaceAllString(fv.String(), "\n"))
					continue
				}
				fmt.Fprintf(sb, "%s=%v\n", f.Name, quoteIfString(fv))
			case reflect.Slice:
				if fv.Len() == 0 {
					continue
				}
				if f.Name == "Specs" {
					// fmt sorts import specs
					var parts []string
					for j := 0; j < fv.Len(); j++ {
						var s2 strings.Builder
						dump(&s2, fv.Index(j), d+2)
						parts = append(parts, s2.String())
					}
					sort.Strings(parts)
					indent(sb, d+1)
					sb.WriteString("Specs(sorted):\n" + strings.Join(parts, ""))
					continue
				}
				var s2 strings.Builder
				for j := 0; j < fv.Len(); j++ {
					dump(&s2, fv.Index(j), d+2)
				}
				if s2.Len() > 0 {
					indent(sb, d+1)
					fmt.Fprintf(sb, "%s:\n", f.Name)
					sb.WriteString(s2.String())
				}
			case reflect.Interface, reflect.Ptr:
				if fv.IsNil() {
					continue
				}
				if f.Name == "Node" || f.Name == "Scope" {
					continue // resolution links
				}
				indent(sb, d+1)
				sb.WriteString(f.Name + ":\n")
				dump(sb, fv, d+2)
			case reflect.Struct:
				// token.Token is an int; embedded helper structs have no exported fields
				dump(sb, fv, d+1)
			}
		}
	default:
		indent(sb, d)
		fmt.Fprintf(sb, "%v\n", quoteIfString(v))
	}
}

func quoteIfString(v reflect.Value) string {
	if v.Kind() == reflect.String {
		return fmt.Sprintf("%q", v.String())
	}
	if s, ok := v.Interface().(fmt.Stringer); ok {
		return s.String()
	}
	return fmt.Sprint(v.Interface())
}
