package core

import (
	"bufio"
	"encoding/binary"
	"fmt"
	"io"
	"os"
	"os/exec"
	"runtime/debug"
	"time"
)

// Child functions run in a separate long-lived helper process so that (a) a
// fatal error (stack overflow, out of memory) or a hang is attributed to the
// exact input without killing the worker, and (b) results can be compared
// across processes.

var childFuncs = map[string]func(in []byte) []byte{}

func RegisterChild(name string, fn func(in []byte) []byte) { childFuncs[name] = fn }

// ChildMain serves requests on stdin/stdout: uint32 length + payload.
func ChildMain(name string) int {
	fn := childFuncs[name]
	if fn == nil {
		fmt.Fprintln(os.Stderr, "unknown child", name)
		return 2
	}
	debug.SetMaxStack(256 << 20)
	in := bufio.NewReaderSize(os.Stdin, 1<<16)
	out := bufio.NewWriterSize(os.Stdout, 1<<16)
	var hdr [4]byte
	for {
		if _, err := io.ReadFull(in, hdr[:]); err != nil {
			return 0
		}
		n := binary.LittleEndian.Uint32(hdr[:])
		buf := make([]byte, n)
		if _, err := io.ReadFull(in, buf); err != nil {
			return 0
		}
		res := fn(buf)
		binary.LittleEndian.PutUint32(hdr[:], uint32(len(res)))
		out.Write(hdr[:])
		out.Write(res)
		out.Flush()
	}
}

// Child is a handle on a helper process.
type Child struct {
	name    string
	cmd     *exec.Cmd
	in      io.WriteCloser
	out     *bufio.Reader
	stderr  *limitedWriter
	Timeout time.Duration
	Deaths  int
}

func NewChild(name string, timeout time.Duration) *Child {
	return &Child{name: name, Timeout: timeout}
}

func (c *Child) start() error {
	self, _ := os.Executable()
	c.cmd = exec.Command(self, append(append([]string{}, SelfArgsPrefix...), "child", c.name)...)
	c.cmd.Env = append(os.Environ(), "GOMAXPROCS=2")
	var err error
	if c.in, err = c.cmd.StdinPipe(); err != nil {
		return err
	}
	op, err := c.cmd.StdoutPipe()
	if err != nil {
		return err
	}
	c.out = bufio.NewReaderSize(op, 1<<16)
	c.stderr = &limitedWriter{w: new(bytesBuffer), n: 1 << 16}
	c.cmd.Stderr = c.stderr
	return c.cmd.Start()
}

// Call sends one request. died=true means the helper process crashed or hung
// on this input (stderr holds the head of its last words).
func (c *Child) Call(in []byte) (out []byte, died bool, stderr string) {
	if c.cmd == nil {
		if err := c.start(); err != nil {
			return nil, true, "cannot start child: " + err.Error()
		}
	}
	type res struct {
		b   []byte
		err error
	}
	ch := make(chan res, 1)
	go func() {
		var hdr [4]byte
		binary.LittleEndian.PutUint32(hdr[:], uint32(len(in)))
		if _, err := c.in.Write(append(hdr[:], in...)); err != nil {
			ch <- res{nil, err}
			return
		}
		if _, err := io.ReadFull(c.out, hdr[:]); err != nil {
			ch <- res{nil, err}
			return
		}
		buf := make([]byte, binary.LittleEndian.Uint32(hdr[:]))
		_, err := io.ReadFull(c.out, buf)
		ch <- res{buf, err}
	}()
	var r res
	timedOut := false
	select {
	case r = <-ch:
	case <-time.After(c.Timeout):
		timedOut = true
		c.cmd.Process.Kill()
		r = <-ch
	}
	if r.err == nil {
		return r.b, false, ""
	}
	c.cmd.Process.Kill()
	c.cmd.Wait()
	se := c.stderr.w.String()
	if timedOut {
		se = fmt.Sprintf("timeout after %s\n%s", c.Timeout, se)
	}
	c.cmd = nil
	c.Deaths++
	return nil, true, head(se, 4000)
}

func (c *Child) Close() {
	if c.cmd != nil {
		c.in.Close()
		c.cmd.Process.Kill()
		c.cmd.Wait()
		c.cmd = nil
	}
}
