// Package c07: printing an evaluated value as CUE and evaluating it again
// gives the same value.
//
// E1: every program (multiset of <=k PG declarations + export-specific
// declarations) whose evaluation has no error x every option profile x root
// and every top-level field path. Oracle: the printed text compiles on its own
// in a fresh context and canon_profile(v) == canon_profile(v').
package c07

import (
	"encoding/json"
	"fmt"
	"strings"

	"cuelang.org/go/cue"
	"cuelang.org/go/cue/cuecontext"
	"cuelang.org/go/cue/format"
	"cuelang.org/go/internal/verif/canon"
	"cuelang.org/go/internal/verif/core"
	"cuelang.org/go/internal/verif/gen"
)

func init() {
	core.Register(&core.Prop{
		ID: "C07",
		Rule: "E1 bounded-exhaustive: every multiset of <=k declarations from the PG 'order' pool + 14 export-specific declarations (labels needing quotes, references escaping the printed sub-value, let, folded bounds) that evaluates without error x 7 option profiles (All, All+Docs, Final, Concrete, cue eval, cue eval -a, cue export --out cue) x {root, every top-level field}. " +
			"Non-trivial = printed values with >=2 fields or a non-concrete leaf.",
		Assumptions: []string{"canon projections per profile: All = everything incl. closedness; Final/eval = defaults taken, closedness not compared; Concrete/export = data only"},
		Run:         run, Replay: replay,
		RequireOutcomes: []string{"roundtrip-ok", "skipped-error-program"},
		BudgetQuick:     200, BudgetThorough: 1500,
	})
}

type kase struct {
	Program string `json:"program"`
	Profile string `json:"profile,omitempty"`
	Path    string `json:"path,omitempty"`
}

type profile struct {
	name     string
	opts     []cue.Option
	canon    canon.Opts
	concrete bool
}

var profiles = []profile{
	{"All", []cue.Option{cue.All()}, canon.Opts{}, false},
	{"All+Docs", []cue.Option{cue.All(), cue.Docs(true)}, canon.Opts{}, false},
	{"Final", []cue.Option{cue.Final()}, canon.Opts{TakeDefaults: true, DataOnly: true}, false},
	{"Concrete", []cue.Option{cue.Concrete(true)}, canon.Opts{TakeDefaults: true, DataOnly: true}, true},
	{"eval", []cue.Option{cue.Final(), cue.Definitions(true), cue.Attributes(false), cue.Optional(false)},
		canon.Opts{TakeDefaults: true, NoClosedness: true, FieldOpts: []cue.Option{cue.Definitions(true)}}, false},
	{"eval-a", []cue.Option{cue.Final(), cue.Definitions(true), cue.Optional(true), cue.Hidden(true)},
		canon.Opts{TakeDefaults: true, NoClosedness: true, FieldOpts: []cue.Option{cue.Definitions(true), cue.Optional(true), cue.Hidden(true)}}, false},
	{"export-cue", []cue.Option{cue.Docs(true), cue.Attributes(true), cue.Optional(false), cue.Concrete(true), cue.Definitions(false)},
		canon.Opts{TakeDefaults: true, DataOnly: true}, true},
}

func extras() []gen.Decl {
	raw := func(s string) gen.Decl { return gen.Decl{Raw: s} }
	lab := func(label, text, needs string) gen.Decl {
		d := gen.Decl{Label: label, Conj: []gen.Val{{Text: text}}}
		if needs != "" {
			d.Needs = []string{needs}
		}
		return d
	}
	return []gen.Decl{
		raw(`"a b": 1`), raw(`"#x": 2`), raw(`"_y": 3`), raw(`"1": 4`), raw(`"if": 5`), raw(`q: "a b": int`),
		raw(`a: >=0 & <=255 & int`), raw(`a: >=-2147483648 & <=2147483647 & int`), raw(`a: >=0.0 & <=255.0`),
		raw(`b: {p: a, q: p}`), raw(`b: {let M = a, p: M}`), raw(`a: 1 & (*1 | 2)`), raw(`b: (*1 | 2) & (*1 | 3) | a`),
		raw(`#D: {x: int, y: *x | string}`),
		// open structs that consist of one embedding / one reference plus `...`
		lab("a", "{#D, ...}", "#D"), lab("a", "#D & {...}", "#D"), lab("#E", "{#D, ...}", "#D"),
		// struct literals that are not the value of a field (list elements,
		// disjuncts, comprehension bodies) with two declarations of one label
		raw(`le: [{x?: int, x: 1}]`), raw(`le2: [{x!: int, x: 3}]`), raw(`ld: *{x?: string, x: "v"} | null`), raw(`lc: [for v in [1, 2] {n?: int, n: v}]`),
		raw(`le3: [{p: q?: int, p: q: 1}]`),
		lab("c", "#E & {zz: 1}", "#E"), lab("c", "a & {zz: 1}", "a"), lab("a", "{b, ...}", "b"), lab("b", "close({x: 1})", ""),
	}
}

func run(r *core.Run) {
	pool := append(gen.Pool("order"), extras()...)
	kmax := 2
	for k := 1; k <= kmax; k++ {
		r.Section(fmt.Sprintf("pool=%d decls k=%d", len(pool), k))
		enumerate(r, pool, k)
	}
	// bound folding (export/bounds.go): every lower x upper bound pair x kind
	r.Section("bound pairs folded by the exporter (lower x upper x kind)")
	lowers := []string{"", ">0", ">=0", ">-1", ">=1", ">=-128", ">=-32768", ">=-2147483648", ">=-9223372036854775808", ">=0.0", ">0.5"}
	uppers := []string{"", "<10", "<=255", "<256", "<=127", "<=32767", "<=65535", "<=2147483647", "<=4294967295", "<=9223372036854775807", "<=18446744073709551615", "<=255.0"}
	kinds := []string{"int", "number", "float", ""}
	for _, lo := range lowers {
		for _, hi := range uppers {
			for _, k := range kinds {
				var parts []string
				for _, p := range []string{k, lo, hi} {
					if p != "" {
						parts = append(parts, p)
					}
				}
				if len(parts) < 2 {
					continue
				}
				for _, order := range [][]string{parts, reverse(parts)} {
					if !r.Mine() {
						continue
					}
					c := kase{Program: "a: " + strings.Join(order, " & ") + "\n"}
					r.Guard(c, func() { check(r, c) })
				}
			}
		}
	}
	if r.Thorough() {
		small := append(gen.Pool("small"), extras()...)
		r.Section(fmt.Sprintf("pool=small+extras(%d) k=3", len(small)))
		enumerate(r, small, 3)
	}
}

func reverse(s []string) []string {
	out := make([]string, len(s))
	for i, x := range s {
		out[len(s)-1-i] = x
	}
	return out
}

func enumerate(r *core.Run, pool []gen.Decl, k int) {
	gen.Multisets(k, len(pool), func(ix []int) bool {
		ds := make([]gen.Decl, k)
		for i, j := range ix {
			ds[i] = pool[j]
		}
		if !gen.Resolvable(ds) {
			return true
		}
		if !r.Mine() {
			return !r.Expired()
		}
		c := kase{Program: gen.Render(ds)}
		r.Guard(c, func() { check(r, c) })
		return true
	})
}

func replay(r *core.Run, raw json.RawMessage) {
	var c kase
	if err := json.Unmarshal(raw, &c); err != nil {
		r.EngineError(err.Error())
		return
	}
	check(r, c)
}

func progKey(p string) string { return strings.ReplaceAll(strings.TrimSpace(p), "\n", "; ") }

func check(r *core.Run, c kase) {
	ctx := cuecontext.New()
	root := ctx.CompileString(c.Program)
	full := canon.New(ctx, canon.Opts{}).Canon(root)
	if strings.Contains(full, "⊥error") || strings.Contains(full, "⊥structcycle") {
		r.Outcome("skipped-error-program")
		return
	}
	paths := []cue.Path{{}}
	if it, err := root.Fields(cue.Definitions(true)); err == nil {
		for it.Next() {
			paths = append(paths, cue.MakePath(it.Selector()))
		}
	}
	concrete := root.Validate(cue.Concrete(true)) == nil
	nOK := 0
	for _, p := range profiles {
		if c.Profile != "" && c.Profile != p.name {
			continue
		}
		if p.concrete && !concrete {
			continue
		}
		for _, path := range paths {
			if c.Path != "" && c.Path != path.String() {
				continue
			}
			v := root.LookupPath(path)
			if p.concrete && v.Validate(cue.Concrete(true)) != nil {
				continue
			}
			node := v.Syntax(p.opts...)
			b, err := format.Node(node)
			r.Trans(1)
			c2 := kase{Program: c.Program, Profile: p.name, Path: path.String()}
			where := fmt.Sprintf("[%s @%s]: %s", p.name, path.String(), progKey(c.Program))
			if err != nil {
				r.Violation("format fails "+where, c2, err.Error())
				return
			}
			ctx2 := cuecontext.New()
			v2 := ctx2.CompileBytes(b)
			want := canon.New(ctx, p.canon).Canon(v)
			got := canon.New(ctx2, p.canon).Canon(v2)
			if e := v2.Err(); e != nil && strings.Contains(e.Error(), "not found") {
				r.Violation("printed text has a dangling reference "+where, c2, fmt.Sprintf("program:\n%s\nprinted (%s at %q):\n%s\nerr: %v", c.Program, p.name, path.String(), b, e))
				continue
			}
			// An incomplete value may be printed as an explicit error: only the
			// fact that the node is bottom is compared.
			want = strings.ReplaceAll(strings.ReplaceAll(want, "⊥incomplete", "⊥"), "⊥error", "⊥")
			got = strings.ReplaceAll(strings.ReplaceAll(got, "⊥incomplete", "⊥"), "⊥error", "⊥")
			if got != want {
				kind := "printed value differs "
				if e := v2.Err(); e != nil && !strings.Contains(want, "⊥") {
					kind = "printed text does not compile/evaluate "
				}
				r.Violation(kind+where, c2, fmt.Sprintf("program:\n%s\nprinted (%s at %q):\n%s\ncanon original: %s\ncanon printed:  %s\nerr: %v", c.Program, p.name, path.String(), b, want, got, v2.Err()))
				continue
			}
			nOK++
		}
	}
	r.Outcome("roundtrip-ok")
	r.State(full)
	if strings.Count(full, ":") >= 2 || strings.Contains(full, "k(") {
		r.Nontrivial()
		r.Sample(map[string]any{"program": c.Program, "prints_checked": nOK})
	}
}
