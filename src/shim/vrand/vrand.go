// Package vrand mirrors math/rand/v2 for the instrumented files: random
// answers become value choices owned by the scheduler.
package vrand

import (
	"math/rand/v2"

	"cuelang.org/go/internal/verif/sched"
)

func IntN(n int) int {
	if s := sched.Cur(); s != nil {
		if n <= 4 {
			return s.Choose("rand.IntN", n)
		}
		// large ranges: only the extremes and the middle are distinguished
		return []int{0, n - 1, n / 2}[s.Choose("rand.IntN", 3)]
	}
	return rand.IntN(n)
}

func Int() int     { return IntN(1 << 30) }
func Int64() int64 { return int64(IntN(1 << 30)) }
func Int64N(n int64) int64 {
	if n < 1<<30 {
		return int64(IntN(int(n)))
	}
	return int64(IntN(1 << 30))
}
func Uint64() uint64   { return uint64(IntN(1 << 30)) }
func Uint32() uint32   { return uint32(IntN(1 << 30)) }
func Float64() float64 { return float64(IntN(4)) / 4 }
func Shuffle(n int, swap func(i, j int)) {
	if sched.Cur() != nil {
		return // identity permutation; order choices are made elsewhere
	}
	rand.Shuffle(n, swap)
}
