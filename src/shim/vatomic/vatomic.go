// Package vatomic mirrors sync/atomic for the instrumented files: every
// operation is a scheduling point, then the real atomic operation is done.
package vatomic

import (
	"sync/atomic"
	"unsafe"

	"cuelang.org/go/internal/verif/sched"
)

func pt(kind string, obj any) {
	if s := sched.Cur(); s != nil {
		s.Point(&sched.Op{Kind: kind, Obj: obj})
	}
}

type Bool struct{ v atomic.Bool }

func (x *Bool) Load() bool                    { pt("a.load", x); return x.v.Load() }
func (x *Bool) Store(v bool)                  { pt("a.store", x); x.v.Store(v) }
func (x *Bool) Swap(v bool) bool              { pt("a.swap", x); return x.v.Swap(v) }
func (x *Bool) CompareAndSwap(o, n bool) bool { pt("a.cas", x); return x.v.CompareAndSwap(o, n) }

type Int32 struct{ v atomic.Int32 }

func (x *Int32) Load() int32                    { pt("a.load", x); return x.v.Load() }
func (x *Int32) Store(v int32)                  { pt("a.store", x); x.v.Store(v) }
func (x *Int32) Add(d int32) int32              { pt("a.add", x); return x.v.Add(d) }
func (x *Int32) Swap(v int32) int32             { pt("a.swap", x); return x.v.Swap(v) }
func (x *Int32) CompareAndSwap(o, n int32) bool { pt("a.cas", x); return x.v.CompareAndSwap(o, n) }

type Int64 struct{ v atomic.Int64 }

func (x *Int64) Load() int64                    { pt("a.load", x); return x.v.Load() }
func (x *Int64) Store(v int64)                  { pt("a.store", x); x.v.Store(v) }
func (x *Int64) Add(d int64) int64              { pt("a.add", x); return x.v.Add(d) }
func (x *Int64) Swap(v int64) int64             { pt("a.swap", x); return x.v.Swap(v) }
func (x *Int64) CompareAndSwap(o, n int64) bool { pt("a.cas", x); return x.v.CompareAndSwap(o, n) }

type Uint32 struct{ v atomic.Uint32 }

func (x *Uint32) Load() uint32                    { pt("a.load", x); return x.v.Load() }
func (x *Uint32) Store(v uint32)                  { pt("a.store", x); x.v.Store(v) }
func (x *Uint32) Add(d uint32) uint32             { pt("a.add", x); return x.v.Add(d) }
func (x *Uint32) Swap(v uint32) uint32            { pt("a.swap", x); return x.v.Swap(v) }
func (x *Uint32) CompareAndSwap(o, n uint32) bool { pt("a.cas", x); return x.v.CompareAndSwap(o, n) }
func (x *Uint32) Or(m uint32) uint32              { pt("a.or", x); return x.v.Or(m) }
func (x *Uint32) And(m uint32) uint32             { pt("a.and", x); return x.v.And(m) }

type Uint64 struct{ v atomic.Uint64 }

func (x *Uint64) Load() uint64                    { pt("a.load", x); return x.v.Load() }
func (x *Uint64) Store(v uint64)                  { pt("a.store", x); x.v.Store(v) }
func (x *Uint64) Add(d uint64) uint64             { pt("a.add", x); return x.v.Add(d) }
func (x *Uint64) Swap(v uint64) uint64            { pt("a.swap", x); return x.v.Swap(v) }
func (x *Uint64) CompareAndSwap(o, n uint64) bool { pt("a.cas", x); return x.v.CompareAndSwap(o, n) }

type Pointer[T any] struct{ v atomic.Pointer[T] }

func (x *Pointer[T]) Load() *T                    { pt("a.load", x); return x.v.Load() }
func (x *Pointer[T]) Store(v *T)                  { pt("a.store", x); x.v.Store(v) }
func (x *Pointer[T]) Swap(v *T) *T                { pt("a.swap", x); return x.v.Swap(v) }
func (x *Pointer[T]) CompareAndSwap(o, n *T) bool { pt("a.cas", x); return x.v.CompareAndSwap(o, n) }

type Value struct{ v atomic.Value }

func (x *Value) Load() any                    { pt("a.load", x); return x.v.Load() }
func (x *Value) Store(v any)                  { pt("a.store", x); x.v.Store(v) }
func (x *Value) Swap(v any) any               { pt("a.swap", x); return x.v.Swap(v) }
func (x *Value) CompareAndSwap(o, n any) bool { pt("a.cas", x); return x.v.CompareAndSwap(o, n) }

// function forms
func AddInt32(p *int32, d int32) int32     { pt("a.add", p); return atomic.AddInt32(p, d) }
func AddInt64(p *int64, d int64) int64     { pt("a.add", p); return atomic.AddInt64(p, d) }
func AddUint32(p *uint32, d uint32) uint32 { pt("a.add", p); return atomic.AddUint32(p, d) }
func AddUint64(p *uint64, d uint64) uint64 { pt("a.add", p); return atomic.AddUint64(p, d) }
func LoadInt32(p *int32) int32             { pt("a.load", p); return atomic.LoadInt32(p) }
func LoadInt64(p *int64) int64             { pt("a.load", p); return atomic.LoadInt64(p) }
func LoadUint32(p *uint32) uint32          { pt("a.load", p); return atomic.LoadUint32(p) }
func LoadUint64(p *uint64) uint64          { pt("a.load", p); return atomic.LoadUint64(p) }
func StoreInt32(p *int32, v int32)         { pt("a.store", p); atomic.StoreInt32(p, v) }
func StoreInt64(p *int64, v int64)         { pt("a.store", p); atomic.StoreInt64(p, v) }
func StoreUint32(p *uint32, v uint32)      { pt("a.store", p); atomic.StoreUint32(p, v) }
func StoreUint64(p *uint64, v uint64)      { pt("a.store", p); atomic.StoreUint64(p, v) }
func CompareAndSwapInt32(p *int32, o, n int32) bool {
	pt("a.cas", p)
	return atomic.CompareAndSwapInt32(p, o, n)
}
func CompareAndSwapInt64(p *int64, o, n int64) bool {
	pt("a.cas", p)
	return atomic.CompareAndSwapInt64(p, o, n)
}
func CompareAndSwapUint32(p *uint32, o, n uint32) bool {
	pt("a.cas", p)
	return atomic.CompareAndSwapUint32(p, o, n)
}
func CompareAndSwapUint64(p *uint64, o, n uint64) bool {
	pt("a.cas", p)
	return atomic.CompareAndSwapUint64(p, o, n)
}
func LoadPointer(p *unsafe.Pointer) unsafe.Pointer     { pt("a.load", p); return atomic.LoadPointer(p) }
func StorePointer(p *unsafe.Pointer, v unsafe.Pointer) { pt("a.store", p); atomic.StorePointer(p, v) }
