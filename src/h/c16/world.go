package c16

import (
	"archive/zip"
	"bytes"
	"context"
	"crypto/sha256"
	"errors"
	"fmt"
	"io"
	"io/fs"
	"os"
	"path/filepath"
	"sort"
	"strings"
	"sync"

	"cuelabs.dev/go/oci/ociregistry"
	"cuelabs.dev/go/oci/ociregistry/ocimem"

	"cuelang.org/go/internal/verif/sched"
	"cuelang.org/go/mod/modcache"
	"cuelang.org/go/mod/modregistry"
	"cuelang.org/go/mod/module"
)

const modPath = "example.com/m@v0"

// world is the registry content: two versions of one module.
type world struct {
	reg      *ocimem.Registry
	files    map[string]map[string]string // version -> path -> content
	zipData  map[string][]byte
	modFile  map[string][]byte
	zipDigst map[string]string // blob digest -> version (zip layer)
}

var (
	theWorld     *world
	theWorldOnce sync.Once
)

func getWorld() *world {
	theWorldOnce.Do(func() {
		w, err := newWorld()
		if err != nil {
			panic("c16: cannot build the registry: " + err.Error())
		}
		theWorld = w
	})
	return theWorld
}

func newWorld() (*world, error) {
	w := &world{reg: ocimem.New(), files: map[string]map[string]string{}, zipData: map[string][]byte{}, modFile: map[string][]byte{}, zipDigst: map[string]string{}}
	client := modregistry.NewClient(w.reg)
	for _, v := range []string{"v0.1.0", "v0.2.0"} {
		mf := fmt.Sprintf("module: %q\nlanguage: version: \"v0.9.0\"\n", modPath)
		files := map[string]string{
			"cue.mod/module.cue": mf,
			"a.cue":              "package m\n\na: \"" + v + "\"\n" + strings.Repeat("// padding so that the file spans more than one write\n", 3),
			"sub/b.cue":          "package sub\n\nb: 1\n",
		}
		if v == "v0.2.0" {
			files["sub/deep/c.cue"] = "package deep\n\nc: 2\n"
		}
		var buf bytes.Buffer
		zw := zip.NewWriter(&buf)
		var names []string
		for n := range files {
			names = append(names, n)
		}
		sort.Strings(names)
		for _, n := range names {
			fw, err := zw.Create(n)
			if err != nil {
				return nil, err
			}
			fw.Write([]byte(files[n]))
		}
		if err := zw.Close(); err != nil {
			return nil, err
		}
		mv := module.MustNewVersion(modPath, v)
		if err := client.PutModule(context.Background(), mv, bytes.NewReader(buf.Bytes()), int64(buf.Len())); err != nil {
			return nil, err
		}
		w.files[v] = files
		w.zipData[v] = buf.Bytes()
		w.modFile[v] = []byte(mf)
		w.zipDigst[fmt.Sprintf("sha256:%x", sha256.Sum256(buf.Bytes()))] = v
	}
	return w, nil
}

// fault describes one injected registry failure.
type fault struct {
	Kind  string `json:"kind,omitempty"`  // "" | call | body | eof | close
	Call  int    `json:"call,omitempty"`  // call: the n-th registry call fails
	Bytes int    `json:"bytes,omitempty"` // body: bytes delivered before the error
}

// faultyReg wraps the registry of one simulated process.
type faultyReg struct {
	ociregistry.Interface
	w       *world
	f       fault
	mu      sync.Mutex
	calls   int
	zipGets map[string]int // version -> number of zip downloads started
}

func newFaulty(w *world, f fault) *faultyReg {
	return &faultyReg{Interface: w.reg, w: w, f: f, zipGets: map[string]int{}}
}

var errInjected = errors.New("injected registry failure")

func (r *faultyReg) call() error {
	sched.Yield("registry")
	r.mu.Lock()
	defer r.mu.Unlock()
	r.calls++
	if r.f.Kind == "call" && r.calls == r.f.Call {
		return errInjected
	}
	return nil
}

func (r *faultyReg) GetTag(ctx context.Context, repo, tag string) (ociregistry.BlobReader, error) {
	if err := r.call(); err != nil {
		return nil, err
	}
	return r.Interface.GetTag(ctx, repo, tag)
}

func (r *faultyReg) GetManifest(ctx context.Context, repo string, d ociregistry.Digest) (ociregistry.BlobReader, error) {
	if err := r.call(); err != nil {
		return nil, err
	}
	return r.Interface.GetManifest(ctx, repo, d)
}

func (r *faultyReg) GetBlob(ctx context.Context, repo string, d ociregistry.Digest) (ociregistry.BlobReader, error) {
	if err := r.call(); err != nil {
		return nil, err
	}
	br, err := r.Interface.GetBlob(ctx, repo, d)
	if err != nil {
		return nil, err
	}
	if v, ok := r.w.zipDigst[string(d)]; ok {
		r.mu.Lock()
		r.zipGets[v]++
		r.mu.Unlock()
		switch r.f.Kind {
		case "body", "eof", "close":
			return &faultyBody{BlobReader: br, f: r.f, left: r.f.Bytes}, nil
		}
	}
	return br, nil
}

type faultyBody struct {
	ociregistry.BlobReader
	f    fault
	left int
	done bool
}

func (b *faultyBody) Read(p []byte) (int, error) {
	switch b.f.Kind {
	case "body":
		// the connection breaks after f.Bytes bytes
		if b.left <= 0 {
			return 0, io.ErrUnexpectedEOF
		}
		if len(p) > b.left {
			p = p[:b.left]
		}
		n, err := b.BlobReader.Read(p)
		b.left -= n
		if err == io.EOF {
			err = nil
		}
		return n, err
	case "eof":
		// everything is delivered, then the digest check at the end fails
		n, err := b.BlobReader.Read(p)
		if err == io.EOF {
			return n, fmt.Errorf("digest mismatch when reading blob")
		}
		return n, err
	}
	// close: a short body whose failure is reported by Close only
	if b.left <= 0 {
		return 0, io.EOF
	}
	if len(p) > b.left {
		p = p[:b.left]
	}
	n, err := b.BlobReader.Read(p)
	b.left -= n
	return n, err
}

func (b *faultyBody) Close() error {
	b.BlobReader.Close()
	if b.f.Kind == "close" {
		return fmt.Errorf("short body: digest mismatch")
	}
	return nil
}

// ---- cache directory inspection (harness side: plain package os) ----

func paths(dir, v string) (extract, partial, zipf, modf, lock string) {
	dl := filepath.Join(dir, "mod", "download", "example.com", "m", "@v")
	return filepath.Join(dir, "mod", "extract", "example.com", "m@"+v), filepath.Join(dl, v+".partial"), filepath.Join(dl, v+".zip"), filepath.Join(dl, v+".mod"), filepath.Join(dl, v+".lock")
}

func exists(p string) bool { _, err := os.Lstat(p); return err == nil }

// treeDiff compares the files under root with want; "" means equal.
func treeDiff(fsys fs.FS, want map[string]string) string {
	got := map[string]string{}
	err := fs.WalkDir(fsys, ".", func(p string, d fs.DirEntry, err error) error {
		if err != nil {
			return err
		}
		if d.IsDir() {
			return nil
		}
		b, err := fs.ReadFile(fsys, p)
		if err != nil {
			return err
		}
		got[p] = string(b)
		return nil
	})
	if err != nil {
		return "cannot read the tree: " + err.Error()
	}
	var diffs []string
	for p, c := range want {
		g, ok := got[p]
		switch {
		case !ok:
			diffs = append(diffs, "missing "+p)
		case g != c:
			diffs = append(diffs, fmt.Sprintf("content of %s differs (%d bytes, want %d)", p, len(g), len(c)))
		}
	}
	for p := range got {
		if _, ok := want[p]; !ok {
			diffs = append(diffs, "extra "+p)
		}
	}
	sort.Strings(diffs)
	return strings.Join(diffs, "; ")
}

// stateInvariant checks the cache directory: a directory that the protocol
// declares available (it exists and no .partial marker is present) is
// complete; a zip or module file at its final name is complete.
func stateInvariant(w *world, dir string) string {
	for _, v := range []string{"v0.1.0", "v0.2.0"} {
		extract, partial, zipf, modf, _ := paths(dir, v)
		if exists(extract) && !exists(partial) {
			if d := treeDiff(os.DirFS(extract), w.files[v]); d != "" {
				return fmt.Sprintf("extracted directory of %s is available (no .partial marker) while incomplete: %s", v, d)
			}
		}
		if b, err := os.ReadFile(zipf); err == nil && !bytes.Equal(b, w.zipData[v]) {
			return fmt.Sprintf("cached zip of %s is present at its final name but incomplete (%d of %d bytes)", v, len(b), len(w.zipData[v]))
		}
		if b, err := os.ReadFile(modf); err == nil && !bytes.Equal(b, w.modFile[v]) {
			return fmt.Sprintf("cached module file of %s is present at its final name but incomplete (%d of %d bytes)", v, len(b), len(w.modFile[v]))
		}
	}
	return ""
}

// probe asks the real API whether the version is available from the cache and
// checks what it hands out.
func probe(w *world, dir, v string) string {
	c, err := modcache.New(nil, dir)
	if err != nil {
		return "modcache.New: " + err.Error()
	}
	loc, err := c.FetchFromCache(module.MustNewVersion(modPath, v))
	if err != nil {
		if errors.Is(err, modregistry.ErrNotFound) {
			return ""
		}
		return "FetchFromCache: unexpected error " + err.Error()
	}
	sub, err := fs.Sub(loc.FS, loc.Dir)
	if err != nil {
		return err.Error()
	}
	if d := treeDiff(sub, w.files[v]); d != "" {
		return fmt.Sprintf("FetchFromCache reports %s as available but the directory is incomplete: %s", v, d)
	}
	return ""
}

var dirSeq int

// freshDir returns a new, empty cache directory (tmpfs when present).
func freshDir() string {
	base := "/dev/shm"
	if _, err := os.Stat(base); err != nil {
		base = "/verif/.work/tmp"
	}
	dirSeq++
	d := filepath.Join(base, fmt.Sprintf("verif-c16-%d", os.Getpid()), fmt.Sprint(dirSeq))
	modcache.RemoveAll(d)
	os.MkdirAll(d, 0o755)
	return d
}

func dropDir(d string) { modcache.RemoveAll(d) }

func dropAll() {
	base := "/dev/shm"
	if _, err := os.Stat(base); err != nil {
		base = "/verif/.work/tmp"
	}
	modcache.RemoveAll(filepath.Join(base, fmt.Sprintf("verif-c16-%d", os.Getpid())))
}
