#!/bin/bash
# Runs the repository's whole test suite (the pinned baseline command, minus -json) and summarises failures.
. /verif/lib/env.sh
cd /repo && nice -n 10 go test -vet=off -count=1 -timeout 25m ./... 2>&1 | grep -v "^ok\|no test files" | tail -60
echo "baseline done rc=${PIPESTATUS[0]}"
