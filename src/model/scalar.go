// Package model holds the independent reference models (plain Go, math/big)
// used as oracles: scalar set membership (C03), value/default pairs (C04),
// struct membership (C05).
package model

import (
	"fmt"
	"math/big"
	"regexp"
	"strings"
)

// Atom is a concrete scalar.
type Atom struct {
	Src  string
	Kind string // null bool int float string bytes
	Num  *big.Rat
	Str  string
	Bool bool
}

func (a Atom) IsNum() bool { return a.Kind == "int" || a.Kind == "float" }

func (a Atom) Equal(b Atom) bool {
	if a.Kind != b.Kind {
		return false
	}
	switch a.Kind {
	case "null":
		return true
	case "bool":
		return a.Bool == b.Bool
	case "int", "float":
		return a.Num.Cmp(b.Num) == 0
	default:
		return a.Str == b.Str
	}
}

func Int(n int64) Atom { return Atom{Src: fmt.Sprint(n), Kind: "int", Num: big.NewRat(n, 1)} }
func Float(src string) Atom {
	r, ok := new(big.Rat).SetString(src)
	if !ok {
		panic(src)
	}
	return Atom{Src: src, Kind: "float", Num: r}
}
func Str(s string) Atom   { return Atom{Src: fmt.Sprintf("%q", s), Kind: "string", Str: s} }
func Bytes(s string) Atom { return Atom{Src: "'" + s + "'", Kind: "bytes", Str: s} }
func Bool(b bool) Atom    { return Atom{Src: fmt.Sprint(b), Kind: "bool", Bool: b} }
func Null() Atom          { return Atom{Src: "null", Kind: "null"} }

// Constraint is one conjunct with its membership predicate.
type Constraint struct {
	Src string
	Sat func(a Atom) bool
}

func AtomC(x Atom) Constraint {
	return Constraint{Src: x.Src, Sat: func(a Atom) bool { return a.Equal(x) }}
}

func TypeC(name string) Constraint {
	return Constraint{Src: name, Sat: func(a Atom) bool {
		switch name {
		case "number":
			return a.IsNum()
		case "uint":
			return a.Kind == "int" && a.Num.Sign() >= 0
		case "uint8":
			return a.Kind == "int" && a.Num.Sign() >= 0 && a.Num.Cmp(big.NewRat(255, 1)) <= 0
		case "int8":
			return a.Kind == "int" && a.Num.Cmp(big.NewRat(-128, 1)) >= 0 && a.Num.Cmp(big.NewRat(127, 1)) <= 0
		case "int16", "int32", "int64", "uint16", "uint32", "uint64":
			bits := map[string]uint{"int16": 16, "int32": 32, "int64": 64, "uint16": 16, "uint32": 32, "uint64": 64}[name]
			lo, hi := new(big.Int), new(big.Int)
			if name[0] == 'u' {
				hi.Sub(new(big.Int).Lsh(big.NewInt(1), bits), big.NewInt(1))
			} else {
				lo.Neg(new(big.Int).Lsh(big.NewInt(1), bits-1))
				hi.Sub(new(big.Int).Lsh(big.NewInt(1), bits-1), big.NewInt(1))
			}
			return a.Kind == "int" && a.Num.Cmp(new(big.Rat).SetInt(lo)) >= 0 && a.Num.Cmp(new(big.Rat).SetInt(hi)) <= 0
		case "_":
			return true
		default:
			return a.Kind == name
		}
	}}
}

// BoundC is `op x`. A bound restricts to the kind of its operand (any number
// for a numeric operand) except that !=null admits every non-null value.
func BoundC(op string, x Atom) Constraint {
	src := op + x.Src
	if strings.HasPrefix(x.Src, "-") {
		src = op + " " + x.Src // "<-" is a token of its own
	}
	return Constraint{Src: src, Sat: func(a Atom) bool {
		if x.Kind == "null" {
			if op == "!=" {
				return a.Kind != "null"
			}
			return false
		}
		var cmp int
		switch {
		case x.IsNum():
			if !a.IsNum() {
				return false
			}
			cmp = a.Num.Cmp(x.Num)
		case x.Kind == "bool":
			if a.Kind != "bool" {
				return false
			}
			if op != "!=" {
				return false
			}
			return a.Bool != x.Bool
		default:
			if a.Kind != x.Kind {
				return false
			}
			cmp = strings.Compare(a.Str, x.Str)
		}
		switch op {
		case "<":
			return cmp < 0
		case "<=":
			return cmp <= 0
		case ">":
			return cmp > 0
		case ">=":
			return cmp >= 0
		case "!=":
			return cmp != 0
		}
		return false
	}}
}

// MatchC is =~ / !~ with a string pattern.
func MatchC(op, pat string) Constraint {
	re := regexp.MustCompile(pat)
	return Constraint{Src: fmt.Sprintf("%s%q", op, pat), Sat: func(a Atom) bool {
		// the operand is a string, so the value is restricted to strings
		if a.Kind != "string" {
			return false
		}
		m := re.MatchString(a.Str)
		if op == "!~" {
			return !m
		}
		return m
	}}
}

// ScalarAtoms is the dense atom alphabet of C03.
func ScalarAtoms() []Atom {
	var as []Atom
	for n := int64(-3); n <= 12; n++ {
		as = append(as, Int(n))
	}
	as = append(as, Int(99), Int(100), Int(101), Int(255), Int(256), Int(-128), Int(-129), Int(127), Int(128))
	for _, f := range []string{"-1.0", "0.0", "0.5", "1.0", "1.5", "2.0", "2.5", "3.0", "3.5", "9.5", "10.0", "10.5", "99.5", "100.0", "100.5"} {
		as = append(as, Float(f))
	}
	as = append(as, Str(""), Str("a"), Str("b"), Str("ba"), Bytes("a"), Bytes("b"), Bool(true), Bool(false), Null())
	return as
}

// ScalarConstraints is the constraint alphabet of C03.
func ScalarConstraints(full bool) []Constraint {
	var cs []Constraint
	atoms := ScalarAtoms()
	if !full {
		// reduced atom constraints: the interesting neighbours of the bound constants
		keep := map[string]bool{"-1": true, "0": true, "1": true, "2": true, "3": true, "10": true, "100": true, "1.5": true, "2.0": true, "2.5": true,
			`"a"`: true, `"b"`: true, "'a'": true, "true": true, "null": true}
		var a2 []Atom
		for _, a := range atoms {
			if keep[a.Src] {
				a2 = append(a2, a)
			}
		}
		atoms = a2
	}
	for _, a := range atoms {
		cs = append(cs, AtomC(a))
	}
	for _, t := range []string{"null", "bool", "int", "float", "number", "string", "bytes", "uint", "uint8", "int8", "_"} {
		cs = append(cs, TypeC(t))
	}
	consts := []Atom{Int(-1), Int(0), Int(1), Float("1.5"), Int(2), Float("2.0"), Float("2.5"), Int(3), Int(10), Int(100), Str("a"), Str("b"), Bytes("a")}
	for _, op := range []string{"<", "<=", ">", ">=", "!="} {
		for _, c := range consts {
			cs = append(cs, BoundC(op, c))
		}
	}
	cs = append(cs, BoundC("!=", Null()), BoundC("!=", Bool(true)))
	cs = append(cs, MatchC("=~", "a"), MatchC("=~", "^b"), MatchC("!~", "a"))
	return cs
}

// BigInt is an integer atom given by its decimal spelling.
func BigInt(src string) Atom {
	n, ok := new(big.Rat).SetString(src)
	if !ok {
		panic("model.BigInt: " + src)
	}
	return Atom{Kind: "int", Num: n, Src: src}
}

// WideAtoms are the probe values of the wide-range family: the boundaries of
// the predeclared integer ranges, their neighbours, and a few small numbers.
func WideAtoms() []Atom {
	var as []Atom
	for _, s := range []string{"-9223372036854775809", "-9223372036854775808", "-9223372036854775807", "-2147483649", "-2147483648", "-32769", "-32768", "-129", "-128", "-1", "0", "1", "3", "5", "7", "8", "9", "127", "128", "255", "256", "500", "32767", "32768", "65535", "65536", "2147483647", "2147483648", "4294967295", "4294967296", "9223372036854775807", "9223372036854775808", "18446744073709551615", "18446744073709551616"} {
		as = append(as, BigInt(s))
	}
	for _, f := range []string{"-1.5", "0.5", "4.5", "8.5"} {
		as = append(as, Float(f))
	}
	as = append(as, Str("a"), Null())
	return as
}

// WideConstraints: predeclared ranges, bounds with extreme constants and small
// bounds; conjunctions of them exercise the bound simplifier where ranges span
// (almost) the whole of a machine integer type.
func WideConstraints() []Constraint {
	var cs []Constraint
	for _, t := range []string{"int", "number", "float", "uint", "int8", "int16", "int32", "int64", "uint8", "uint16", "uint32", "uint64"} {
		cs = append(cs, TypeC(t))
	}
	for _, b := range []struct{ op, c string }{
		{">=", "-9223372036854775808"}, {">", "-9223372036854775808"}, {">=", "-9223372036854775809"}, {"<=", "9223372036854775807"}, {"<", "9223372036854775808"},
		{"<=", "18446744073709551615"}, {">=", "-2147483648"}, {"<=", "4294967295"}, {">=", "-128"}, {"<=", "255"},
		{"<=", "5"}, {"<", "8"}, {"<", "1"}, {"<=", "9"}, {"<", "7"}, {"<=", "500"}, {">=", "0"}, {">", "3"}, {"!=", "2"}, {"!=", "0"},
	} {
		cs = append(cs, BoundC(b.op, BigInt(b.c)))
	}
	cs = append(cs, BoundC(">", Float("-9e18")), BoundC("<", Float("9e18")), BoundC("<=", Float("8.5")), BoundC(">=", Float("0.5")))
	return cs
}
