// Command instrument writes instrumented copies of repository files for the
// controlled scheduler (E2) and prints a `go build -overlay` fragment.
//
//	instrument -out DIR pkgdir:file.go[,file.go...] ...
//
// Rewrites (typed, via go/packages):
//   - imports "sync", "sync/atomic", "math/rand/v2" -> shim packages under the
//     same local name, so every sync.Mutex, atomic.Int64, rand.IntN in the file
//     becomes scheduler-visible without touching identifiers;
//   - `go f(x)`      -> arguments evaluated at spawn time, then vsched.Go(func(){...});
//   - `<-c`, `c <- v`, `close(c)` -> vsched.Recv / Recv2 / Send / Close;
//   - `for k, v := range m` over a map -> range over vsched.MapSeq(m) (sorted
//     snapshot, order owned by the scheduler);
//   - `select` -> error (the targeted files have none).
package main

import (
	"bytes"
	"encoding/json"
	"flag"
	"fmt"
	"go/ast"
	"go/format"
	"go/token"
	"go/types"
	"os"
	"path/filepath"
	"strings"

	"golang.org/x/tools/go/ast/astutil"
	"golang.org/x/tools/go/packages"
)

const shimRoot = "cuelang.org/go/internal/verif/shim/"
const schedPath = "cuelang.org/go/internal/verif/sched"

var importMap = map[string]string{
	"sync":         shimRoot + "vsync",
	"sync/atomic":  shimRoot + "vatomic",
	"math/rand/v2": shimRoot + "vrand",
}

func main() {
	out := flag.String("out", "", "output directory")
	repo := flag.String("repo", "/repo", "repository root")
	extraImports := flag.String("map", "", "extra import rewrites old=new,old=new")
	flag.Parse()
	if *extraImports != "" {
		for _, kv := range strings.Split(*extraImports, ",") {
			k, v, _ := strings.Cut(kv, "=")
			importMap[k] = v
		}
	}
	replace := map[string]string{}
	for _, arg := range flag.Args() {
		dir, files, _ := strings.Cut(arg, ":")
		want := map[string]bool{}
		for _, f := range strings.Split(files, ",") {
			want[f] = true
		}
		cfg := &packages.Config{Mode: packages.NeedName | packages.NeedFiles | packages.NeedSyntax | packages.NeedTypes | packages.NeedTypesInfo | packages.NeedImports | packages.NeedDeps,
			Dir: *repo, Env: append(os.Environ(), "GOFLAGS=-mod=mod")}
		pkgs, err := packages.Load(cfg, "./"+dir)
		if err != nil || len(pkgs) != 1 {
			fmt.Fprintf(os.Stderr, "instrument: load %s: %v (%d packages)\n", dir, err, len(pkgs))
			os.Exit(2)
		}
		pkg := pkgs[0]
		if len(pkg.Errors) > 0 {
			fmt.Fprintf(os.Stderr, "instrument: %s: %v\n", dir, pkg.Errors[0])
			os.Exit(2)
		}
		done := map[string]bool{}
		for _, f := range pkg.Syntax {
			name := filepath.Base(pkg.Fset.Position(f.Pos()).Filename)
			if !want[name] {
				continue
			}
			done[name] = true
			src, err := rewrite(pkg, f)
			if err != nil {
				fmt.Fprintf(os.Stderr, "instrument: %s/%s: %v\n", dir, name, err)
				os.Exit(2)
			}
			dst := filepath.Join(*out, dir, name)
			os.MkdirAll(filepath.Dir(dst), 0o755)
			if err := os.WriteFile(dst, src, 0o644); err != nil {
				fmt.Fprintln(os.Stderr, err)
				os.Exit(2)
			}
			replace[filepath.Join(*repo, dir, name)] = dst
		}
		for f := range want {
			if !done[f] {
				fmt.Fprintf(os.Stderr, "instrument: %s/%s not found in package\n", dir, f)
				os.Exit(2)
			}
		}
	}
	json.NewEncoder(os.Stdout).Encode(map[string]any{"Replace": replace})
}

type rewriter struct {
	pkg       *packages.Package
	needSched bool
	tmp       int
	err       error
}

func rewrite(pkg *packages.Package, f *ast.File) ([]byte, error) {
	rw := &rewriter{pkg: pkg}
	// 1. imports
	for _, imp := range f.Imports {
		p := strings.Trim(imp.Path.Value, `"`)
		if np, ok := importMap[p]; ok {
			local := filepath.Base(p)
			if p == "math/rand/v2" {
				local = "rand"
			}
			if imp.Name != nil {
				local = imp.Name.Name
			}
			imp.Path.Value = `"` + np + `"`
			imp.Name = ast.NewIdent(local)
		}
	}
	// 2. statements and expressions
	astutil.Apply(f, func(c *astutil.Cursor) bool {
		switch n := c.Node().(type) {
		case *ast.SelectStmt:
			rw.err = fmt.Errorf("select statement at %v is not supported by the instrumenter", pkg.Fset.Position(n.Pos()))
		case *ast.GoStmt:
			c.Replace(rw.goStmt(n))
		case *ast.SendStmt:
			rw.needSched = true
			c.Replace(&ast.ExprStmt{X: call("vsched", "Send", n.Chan, n.Value)})
		case *ast.AssignStmt:
			// v, ok := <-c
			if len(n.Lhs) == 2 && len(n.Rhs) == 1 {
				if u, ok := n.Rhs[0].(*ast.UnaryExpr); ok && u.Op == token.ARROW {
					rw.needSched = true
					n.Rhs[0] = call("vsched", "Recv2", u.X)
				}
			}
		case *ast.RangeStmt:
			if t := pkg.TypesInfo.TypeOf(n.X); t != nil {
				switch t.Underlying().(type) {
				case *types.Map:
					rw.needSched = true
					n.X = call("vsched", "MapSeq", n.X)
				case *types.Chan:
					rw.err = fmt.Errorf("range over channel at %v is not supported", pkg.Fset.Position(n.Pos()))
				}
			}
		}
		return true
	}, func(c *astutil.Cursor) bool {
		switch n := c.Node().(type) {
		case *ast.UnaryExpr:
			if n.Op == token.ARROW {
				rw.needSched = true
				c.Replace(call("vsched", "Recv", n.X))
			}
		case *ast.CallExpr:
			if id, ok := n.Fun.(*ast.Ident); ok && id.Name == "close" && len(n.Args) == 1 {
				if _, isBuiltin := pkg.TypesInfo.Uses[id].(*types.Builtin); isBuiltin {
					rw.needSched = true
					c.Replace(call("vsched", "Close", n.Args[0]))
				}
			}
		}
		return true
	})
	if rw.err != nil {
		return nil, rw.err
	}
	if rw.needSched {
		astutil.AddNamedImport(pkg.Fset, f, "vsched", schedPath)
	}
	var buf bytes.Buffer
	if err := format.Node(&buf, pkg.Fset, f); err != nil {
		return nil, err
	}
	return buf.Bytes(), nil
}

func call(pkg, fn string, args ...ast.Expr) *ast.CallExpr {
	return &ast.CallExpr{Fun: &ast.SelectorExpr{X: ast.NewIdent(pkg), Sel: ast.NewIdent(fn)}, Args: args}
}

// goStmt: `go f(a, b)` -> { f0 := f; a0 := a; b0 := b; vsched.Go(func(){ f0(a0, b0) }) }
func (rw *rewriter) goStmt(g *ast.GoStmt) ast.Stmt {
	rw.needSched = true
	var pre []ast.Stmt
	callExpr := *g.Call
	newArgs := make([]ast.Expr, len(callExpr.Args))
	for i, a := range callExpr.Args {
		rw.tmp++
		name := fmt.Sprintf("vschedArg%d", rw.tmp)
		pre = append(pre, &ast.AssignStmt{Lhs: []ast.Expr{ast.NewIdent(name)}, Tok: token.DEFINE, Rhs: []ast.Expr{a}})
		newArgs[i] = ast.NewIdent(name)
	}
	callExpr.Args = newArgs
	if _, isLit := callExpr.Fun.(*ast.FuncLit); !isLit {
		rw.tmp++
		name := fmt.Sprintf("vschedFn%d", rw.tmp)
		pre = append(pre, &ast.AssignStmt{Lhs: []ast.Expr{ast.NewIdent(name)}, Tok: token.DEFINE, Rhs: []ast.Expr{callExpr.Fun}})
		callExpr.Fun = ast.NewIdent(name)
	}
	body := &ast.FuncLit{Type: &ast.FuncType{Params: &ast.FieldList{}}, Body: &ast.BlockStmt{List: []ast.Stmt{&ast.ExprStmt{X: &callExpr}}}}
	spawn := &ast.ExprStmt{X: call("vsched", "Go", body)}
	return &ast.BlockStmt{List: append(pre, spawn)}
}
