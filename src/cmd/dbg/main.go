package main

import (
	"fmt"
	"os"

	"cuelang.org/go/cue/cuecontext"
	"cuelang.org/go/internal/verif/canon"
)

func main() {
	ctx := cuecontext.New()
	cn := canon.New(ctx, canon.Opts{})
	for _, f := range os.Args[1:] {
		b, _ := os.ReadFile(f)
		fmt.Println("==", f)
		v := ctx.CompileString(string(b))
		fmt.Println(cn.Canon(v))
	}
}
