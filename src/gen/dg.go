package gen

import (
	"fmt"
	"math/big"
	"strings"

	"cuelang.org/go/cue/literal"
)

// ---- Data generator (DG): concrete data trees with hostile strings/keys ----

// Data is a concrete JSON-like value.
type Data struct {
	Kind string // null bool int float string list struct
	B    bool
	Num  string // decimal spelling valid in CUE, JSON and YAML
	S    string
	L    []Data
	Keys []string
	Vals []Data
}

func (d Data) Rat() *big.Rat {
	r, _ := new(big.Rat).SetString(d.Num)
	return r
}

// CUE renders the value as CUE source.
func (d Data) CUE() string {
	switch d.Kind {
	case "null":
		return "null"
	case "bool":
		return fmt.Sprint(d.B)
	case "int", "float":
		return d.Num
	case "string":
		return literal.String.Quote(d.S)
	case "list":
		var p []string
		for _, e := range d.L {
			p = append(p, e.CUE())
		}
		return "[" + strings.Join(p, ", ") + "]"
	default:
		var p []string
		for i, k := range d.Keys {
			p = append(p, literal.String.Quote(k)+": "+d.Vals[i].CUE())
		}
		return "{" + strings.Join(p, ", ") + "}"
	}
}

func (d Data) String() string { return d.CUE() }

func DStr(s string) Data { return Data{Kind: "string", S: s} }
func DInt(s string) Data { return Data{Kind: "int", Num: s} }
func DFloat(s string) Data { return Data{Kind: "float", Num: s} }
func DList(e ...Data) Data {
	if e == nil {
		e = []Data{}
	}
	return Data{Kind: "list", L: e}
}
func DStruct(kv ...any) Data {
	d := Data{Kind: "struct", Keys: []string{}, Vals: []Data{}}
	for i := 0; i+1 < len(kv); i += 2 {
		d.Keys = append(d.Keys, kv[i].(string))
		d.Vals = append(d.Vals, kv[i+1].(Data))
	}
	return d
}

// HostileStrings is the adversarial string pool shared by the codec checks.
var HostileStrings = []string{
	"", "a", " ", "a b", " a", "a ", "\n", "a\nb", "a\n", "\t", "\r\n", "\"", "'", "\\", "<", "&", ">", "</script>",
	"\u2028", "\u2029", "\u0000", "\u001f", "\u007f", "é", "\U0001F600", "\ufeff", "�", "#", "\\(x)", "${x}", "{{x}}", "\u0001", "a\u000bb", "\U000E0001", "\u0085", "\u00a0", "\u200b", "\ufffe",
	"null", "true", "1", "1.5", "-", "- a", ": ", "a: b", "[", "]", "{", "}", ",", "*", "&a", "!t", "|", ">-", "%", "@", "`",
	"~", "yes", "no", "on", "off", "y", "n", "0x1f", "0o7", "1e3", ".inf", ".nan", "2001-01-01", "1:20", "<<", "=", "---", "...", "? ",
}

// ScalarData returns the scalar alphabet (numbers of every notable spelling,
// booleans, null and the given strings).
func ScalarData(strs []string) []Data {
	out := []Data{{Kind: "null"}, {Kind: "bool", B: true}, {Kind: "bool", B: false}}
	for _, n := range []string{"0", "1", "-1", "10", "123456789012345678901", "9223372036854775807", "9223372036854775808", "-9223372036854775808"} {
		out = append(out, DInt(n))
	}
	for _, f := range []string{"0.0", "1.0", "0.10", "1.5", "-1.5", "1e2", "1e-2", "1e400", "1e-400", "1.7976931348623157e309", "0.1"} {
		out = append(out, DFloat(f))
	}
	for _, s := range strs {
		out = append(out, DStr(s))
	}
	return out
}

// Containers enumerates lists and structs of width <= w over the given
// element values and keys, calling fn for each.
func Containers(elems []Data, keys []string, w int, fn func(Data) bool) {
	fn(DList())
	fn(DStruct())
	for n := 1; n <= w; n++ {
		ok := true
		Tuples(n, len(elems), func(ix []int) bool {
			l := make([]Data, n)
			for i, j := range ix {
				l[i] = elems[j]
			}
			if !fn(DList(l...)) {
				ok = false
			}
			return ok
		})
		if !ok {
			return
		}
		// structs: distinct keys, ordered
		Tuples(n, len(keys), func(kx []int) bool {
			seen := map[int]bool{}
			for _, k := range kx {
				if seen[k] {
					return true
				}
				seen[k] = true
			}
			Tuples(n, len(elems), func(ix []int) bool {
				d := Data{Kind: "struct"}
				for i := range kx {
					d.Keys = append(d.Keys, keys[kx[i]])
					d.Vals = append(d.Vals, elems[ix[i]])
				}
				if !fn(d) {
					ok = false
				}
				return ok
			})
			return ok
		})
		if !ok {
			return
		}
	}
}
