// Package vos mirrors the parts of package os used by the module cache
// (mod/modcache, mod/modzip, internal/robustio). It runs on the real file
// system; every mutating call is an *effect* of a simulated operating-system
// process (Proc):
//
//   - effects are counted and logged, and the process can be made to crash
//     (be killed) immediately before its n-th effect, or in the middle of a
//     write (a torn write: only a prefix of the buffer reaches the file);
//   - after the crash the process is dead: nothing it does (deferred cleanup
//     running while the panic unwinds) reaches the file system, exactly as for
//     a killed process, and the file locks it held are released;
//   - an observer is called after every effect, so that invariants can be
//     checked on every intermediate state of the cache directory;
//   - under the controlled scheduler every call (effects and reads) is a
//     scheduling point, and the calling thread's tag says which simulated
//     process it belongs to.
//
// Without a current Proc the calls fall through to package os.
package vos

import (
	"errors"
	"fmt"
	"io/fs"
	"os"
	"path/filepath"
	"sort"
	"sync"

	"cuelang.org/go/internal/verif/sched"
)

type (
	FileInfo = os.FileInfo
	FileMode = os.FileMode
	DirEntry = os.DirEntry
)

const (
	O_RDONLY = os.O_RDONLY
	O_WRONLY = os.O_WRONLY
	O_RDWR   = os.O_RDWR
	O_APPEND = os.O_APPEND
	O_CREATE = os.O_CREATE
	O_EXCL   = os.O_EXCL
	O_TRUNC  = os.O_TRUNC

	ModeDir     = os.ModeDir
	ModeSymlink = os.ModeSymlink
	ModeType    = os.ModeType
	ModePerm    = os.ModePerm
)

var (
	ErrNotExist = os.ErrNotExist
	ErrExist    = os.ErrExist
)

func IsNotExist(err error) bool { return os.IsNotExist(err) }
func IsExist(err error) bool    { return os.IsExist(err) }

// Proc is one simulated process.
type Proc struct {
	ID      int
	Dead    bool
	Effects int
	// CrashAt kills the process immediately before its CrashAt-th effect
	// (1-based; 0 = never). For a write effect Torn >= 0 lets that many bytes
	// (capped at the buffer length) reach the file first.
	CrashAt int
	Torn    int
	Log     []string
	// Observer is called after every effect that was performed.
	Observer func(p *Proc, op, path string)
	// WriteSizes records the buffer length of every write effect by index.
	WriteSizes map[int]int
	// HardKill makes the crash a real one: the operating-system process exits
	// at once (used by the conformance check of the simulated kill).
	HardKill bool
}

// Crash is the panic value that unwinds a killed process.
type Crash struct{ P *Proc }

var errDead = errors.New("vos: process is dead")

var (
	mu       sync.Mutex
	fallback *Proc // current process when no scheduler is active
	held     = map[string]*Proc{}
)

// SetCurrent sets the process on whose behalf calls are made while no
// scheduler is active (nil = fall through to package os).
func SetCurrent(p *Proc) { fallback = p }

// Current returns the process of the calling thread.
func Current() *Proc {
	if s := sched.Cur(); s != nil {
		if p, ok := s.Tag().(*Proc); ok {
			return p
		}
		return nil
	}
	return fallback
}

// ResetLocks forgets all file locks (between executions).
func ResetLocks() {
	mu.Lock()
	held = map[string]*Proc{}
	mu.Unlock()
}

func (p *Proc) kill() {
	if p.HardKill {
		os.Exit(137)
	}
	p.Dead = true
	mu.Lock()
	for path, owner := range held {
		if owner == p {
			delete(held, path)
		}
	}
	mu.Unlock()
	panic(Crash{p})
}

// effect announces a mutating call. It returns an error when the process is
// already dead and does not return when the process crashes here.
func effect(op, path string) (*Proc, error) {
	p := Current()
	if p == nil {
		return nil, nil
	}
	if p.Dead {
		return p, errDead
	}
	sched.Yield("fs:" + op)
	if p.Dead { // killed by a sibling thread's crash while parked
		panic(Crash{p})
	}
	p.Effects++
	p.Log = append(p.Log, op+" "+path)
	if p.Effects == p.CrashAt && op != "write" {
		p.kill()
	}
	return p, nil
}

func (p *Proc) done(op, path string) {
	if p != nil && p.Observer != nil {
		p.Observer(p, op, path)
	}
}

// read announces a non-mutating call.
func read(op string) error {
	p := Current()
	if p == nil {
		return nil
	}
	if p.Dead {
		return errDead
	}
	sched.Yield("fs:" + op)
	if p.Dead {
		panic(Crash{p})
	}
	return nil
}

func Stat(name string) (FileInfo, error) {
	if err := read("stat"); err != nil {
		return nil, err
	}
	return os.Stat(name)
}

func Lstat(name string) (FileInfo, error) {
	if err := read("lstat"); err != nil {
		return nil, err
	}
	return os.Lstat(name)
}

func ReadDir(name string) ([]DirEntry, error) {
	if err := read("readdir"); err != nil {
		return nil, err
	}
	return os.ReadDir(name)
}

func ReadFile(name string) ([]byte, error) {
	if err := read("readfile"); err != nil {
		return nil, err
	}
	return os.ReadFile(name)
}

func MkdirAll(path string, perm FileMode) error {
	// only an effect when something is created
	if fi, err := os.Stat(path); err == nil && fi.IsDir() {
		if err := read("mkdirall-noop"); err != nil {
			return err
		}
		return nil
	}
	p, err := effect("mkdirall", path)
	if err != nil {
		return err
	}
	err = os.MkdirAll(path, perm)
	p.done("mkdirall", path)
	return err
}

func Mkdir(path string, perm FileMode) error {
	p, err := effect("mkdir", path)
	if err != nil {
		return err
	}
	err = os.Mkdir(path, perm)
	p.done("mkdir", path)
	return err
}

func Remove(name string) error {
	p, err := effect("remove", name)
	if err != nil {
		return err
	}
	err = os.Remove(name)
	p.done("remove", name)
	return err
}

// RemoveAll removes a tree entry by entry (children first): a process killed
// in the middle leaves the rest behind.
func RemoveAll(path string) error {
	if Current() == nil {
		return os.RemoveAll(path)
	}
	if err := read("removeall"); err != nil {
		return err
	}
	var paths []string
	filepath.WalkDir(path, func(p string, d fs.DirEntry, err error) error {
		if err == nil {
			paths = append(paths, p)
		}
		return nil
	})
	sort.Sort(sort.Reverse(sort.StringSlice(paths)))
	for _, q := range paths {
		p, err := effect("remove", q)
		if err != nil {
			return err
		}
		if err := os.Remove(q); err != nil && !os.IsNotExist(err) {
			// a read-only parent directory: os.RemoveAll would fail the same way
			p.done("remove", q)
			return err
		}
		p.done("remove", q)
	}
	return nil
}

func Rename(oldpath, newpath string) error {
	p, err := effect("rename", oldpath+" -> "+newpath)
	if err != nil {
		return err
	}
	err = os.Rename(oldpath, newpath)
	p.done("rename", newpath)
	return err
}

func Chmod(name string, mode FileMode) error {
	p, err := effect("chmod", name)
	if err != nil {
		return err
	}
	err = os.Chmod(name, mode)
	p.done("chmod", name)
	return err
}

// WriteFile is create + write + close: a crash may leave an empty file.
func WriteFile(name string, data []byte, perm FileMode) error {
	f, err := OpenFile(name, O_WRONLY|O_CREATE|O_TRUNC, perm)
	if err != nil {
		return err
	}
	if len(data) > 0 {
		if _, err := f.Write(data); err != nil {
			f.Close()
			return err
		}
	}
	return f.Close()
}

// File wraps *os.File; it deliberately does not embed it, so that io.Copy
// goes through Write (no ReadFrom shortcut).
type File struct {
	f    *os.File
	proc *Proc
}

func Open(name string) (*File, error) {
	if err := read("open"); err != nil {
		return nil, err
	}
	f, err := os.Open(name)
	if err != nil {
		return nil, err
	}
	return &File{f: f, proc: Current()}, nil
}

func OpenFile(name string, flag int, perm FileMode) (*File, error) {
	var p *Proc
	if flag&(O_CREATE|O_TRUNC) != 0 {
		var err error
		p, err = effect("create", name)
		if err != nil {
			return nil, err
		}
	} else if err := read("open"); err != nil {
		return nil, err
	}
	f, err := os.OpenFile(name, flag, perm)
	if p != nil {
		p.done("create", name)
	}
	if err != nil {
		return nil, err
	}
	return &File{f: f, proc: Current()}, nil
}

func (f *File) Name() string               { return f.f.Name() }
func (f *File) Stat() (FileInfo, error)    { return f.f.Stat() }
func (f *File) Read(b []byte) (int, error) { return f.f.Read(b) }
func (f *File) ReadAt(b []byte, off int64) (int, error) {
	return f.f.ReadAt(b, off)
}
func (f *File) Seek(off int64, whence int) (int64, error) { return f.f.Seek(off, whence) }

func (f *File) Write(b []byte) (int, error) {
	p, err := effect("write", f.f.Name())
	if err != nil {
		return 0, err
	}
	if p != nil {
		if p.WriteSizes == nil {
			p.WriteSizes = map[int]int{}
		}
		p.WriteSizes[p.Effects] = len(b)
		if p.Effects == p.CrashAt {
			if n := min(p.Torn, len(b)); n > 0 {
				f.f.Write(b[:n])
			}
			if !p.HardKill {
				f.f.Close() // the kernel closes a dead process's descriptors
			}
			p.kill()
		}
	}
	n, err := f.f.Write(b)
	p.done("write", f.f.Name())
	return n, err
}

// Close is not an effect on the file system's visible state (the data was
// written by Write), but a dead process does not report success.
func (f *File) Close() error {
	err := f.f.Close()
	if f.proc != nil && f.proc.Dead {
		return errDead
	}
	return err
}

// Flock models an exclusive advisory lock on path, visible to the scheduler.
func Flock(path string) (unlock func(), err error) {
	p := Current()
	if p == nil {
		return nil, fmt.Errorf("vos.Flock without a current process")
	}
	if p.Dead {
		return nil, errDead
	}
	if s := sched.Cur(); s != nil {
		s.Point(&sched.Op{Kind: "flock", Obj: path, Enabled: func() bool {
			mu.Lock()
			defer mu.Unlock()
			return held[path] == nil || p.Dead
		}})
		if p.Dead {
			panic(Crash{p})
		}
	}
	mu.Lock()
	if owner := held[path]; owner != nil {
		mu.Unlock()
		return nil, fmt.Errorf("vos.Flock: %s is held by process %d and no scheduler is active", path, owner.ID)
	}
	held[path] = p
	mu.Unlock()
	return func() {
		mu.Lock()
		if held[path] == p {
			delete(held, path)
		}
		mu.Unlock()
		if !p.Dead {
			sched.Yield("funlock")
		}
	}, nil
}
