// Package c02: parse -> compile -> evaluate -> validate -> export never
// crashes and is repeatable.
//
// E1 over (a) token soups, (b) PG "hostile" programs (cyclic, conflicting,
// self-referential), (c) all byte strings <=2 and every single-byte
// substitution of seed programs. Every input runs through the full pipeline
// four times: twice in one context and once in a fresh context inside a helper
// process (so a fatal error or hang is attributed to the exact input), and once
// in the worker process (cross-process comparison). All outputs must be
// byte-identical.
package c02

import (
	"bytes"
	"encoding/json"
	"fmt"
	"strings"
	"time"

	"cuelang.org/go/cue"
	"cuelang.org/go/cue/cuecontext"
	"cuelang.org/go/cue/errors"
	"cuelang.org/go/cue/format"
	"cuelang.org/go/cue/parser"
	"cuelang.org/go/encoding/yaml"
	"cuelang.org/go/internal/verif/core"
	"cuelang.org/go/internal/verif/gen"
)

func init() {
	core.Register(&core.Prop{
		ID: "C02",
		Rule: "E1 bounded-exhaustive: all token strings <=L over a 30-token alphabet; all multisets of <=k declarations from the PG 'hostile' pool (order pool + self-reference, cycles, conflicts, division by zero); all byte strings <=2 and all 256 single-byte substitutions at every offset of seed programs. " +
			"Each input: pipeline x4 (same ctx twice, fresh ctx, other process), outputs compared byte for byte. Non-trivial = inputs that parse and reach the evaluator.",
		Assumptions: []string{"stack capped at 256 MiB in the helper process, per-input deadline 30 s (>100x normal)", "alphabets/bounds in coverage.sections"},
		Run:         run, Replay: replay,
		RequireOutcomes: []string{"parse-error", "eval-ok", "eval-error"},
		BudgetQuick:     150, BudgetThorough: 1500,
		StallSeconds: 200,
	})
	core.RegisterChild("c02", childFn)
}

type kase struct {
	Src  string `json:"src"`
	Q    string `json:"q"`
	From string `json:"from"`
}

var soupTokens = []string{"a", "b", "#D", "_h", "1", `"s"`, ":", ",", "{", "}", "[", "]", "&", "|", "*", "(", ")", "...", "?", "!", "=", ".", ">", "if", "for", "in", "let", "\n", "x", "+"}

var seeds = []string{
	"a: b: 1\nc: a.b + 2\n",
	"#D: {x?: int, y!: string}\nd: #D & {y: \"s\"}\n",
	"a: *1 | 2 | int\nb: a & >1\n",
	"l: [1, 2, ...int]\nm: [for x in l {x + 1}]\n",
	"s: \"a\\(1+1)b\"\nt: len(s)\n",
	"a: {[=~\"^x\"]: int, xa: 1}\nb: close({c: 1})\n",
	"let X = {a: 1}\nb: X.a\nif b > 0 {c: b}\n",
	"a: >=1 & <=10 & int\nb: a & 5\n",
	"x: y\ny: x\nz: {x, w: 1}\n",
	"a: 1.5e3\nb: 0x1F\nc: 1Ki\nd: a * b / c\n",
	"a: 'bytes'\nb: \"\"\"\n  multi\n  \"\"\"\n",
	"a: [string]: int\na: foo: 1\n",
	"@attr(x)\npackage p\nimport \"strings\"\na: strings.ToUpper(\"x\")\n",
	"a: {b: _|_}\nc: a.b | 1\n",
	"a: 1 & 2\nb: a\n",
	"#A: {a: int}\n#B: {b: int}\nc: #A & #B\nd: {#A, #B}\n",
	"a: {b?: {c!: int}}\nd: a & {b: {}}\n",
	"x: [...{y: int}]\nx: [{y: 1}, {y: \"s\"}]\n",
	"f: {in: int, out: in * 2}\ng: (f & {in: 3}).out\n",
	"a: null | bool\nb: a & true\nc: !b\n",
}

// multiErr: several errors of the same kind in one scope. Error lists that
// are collected by ranging over a Go map come out in a different order on
// every run.
var multiErr = []string{
	"x: {let a = 1, let b = 2, let c = 3, y: 1}\n",
	"let a = 1\nlet b = 2\nlet c = 3\ny: 1\n",
	"x: {let a = 1, let b = 2, let c = 3, let d = 4, y: 1}\nz: {let e = 1, let f = 2, w: 1}\n",
	"a: 1 & 2\nb: \"x\" & 1\nc: true & null\n",
	"a: {x: 1 & 2, y: 3 & 4, z: 5 & 6}\n",
	"l: [1 & 2, 3 & 4, 5 & 6]\n",
	"b: {}\na: b.c\nd: b.e\nf: b.g\n",
	"#D: {x: int}\na: #D & {p: 1, q: 2, r: 3}\n",
	"a: {x!: int, y!: int, z!: int}\nb: a & {}\n",
	"a: {[=~\"^x\"]: int, [=~\"x$\"]: string, x: true}\n",
	"import \"strings\"\nimport \"list\"\nimport \"math\"\na: 1\n",
	"a: *1 | *2 | *3\nb: a + 1\nc: a + 2\n",
}

func run(r *core.Run) {
	ch := core.NewChild("c02", 30*time.Second)
	defer ch.Close()
	soupL, k, nSeeds := 3, 2, 6
	if r.Thorough() {
		soupL, k, nSeeds = 4, 3, len(seeds)
	}
	pool := gen.Pool("hostile")
	for kk := 1; kk <= k; kk++ {
		r.Section(fmt.Sprintf("PG hostile(%d decls) k=%d", len(pool), kk))
		gen.Multisets(kk, len(pool), func(ix []int) bool {
			if !r.Mine() {
				return !r.Expired()
			}
			ds := make([]gen.Decl, kk)
			for i, j := range ix {
				ds[i] = pool[j]
			}
			c := kase{Src: gen.Render(ds), From: "pg"}
			r.Guard(c, func() { check(r, ch, c) })
			return true
		})
	}
	if r.Quick() {
		// k=3 restricted to multisets containing at least two hostile-only declarations
		base := len(gen.Pool("order"))
		r.Section("PG hostile k=3 with >=2 hostile-only declarations")
		gen.Multisets(3, len(pool), func(ix []int) bool {
			if ix[1] < base {
				return true
			}
			if !r.Mine() {
				return !r.Expired()
			}
			ds := []gen.Decl{pool[ix[0]], pool[ix[1]], pool[ix[2]]}
			c := kase{Src: gen.Render(ds), From: "pg"}
			r.Guard(c, func() { check(r, ch, c) })
			return true
		})
	}
	matrix(r, ch)
	r.Section(fmt.Sprintf("programs with several errors of one kind in one scope (%d programs, pipeline x12): the order and the text of the errors must not vary", len(multiErr)))
	for _, src := range multiErr {
		if !r.Mine() {
			continue
		}
		c := kase{Src: src, From: "multi-error"}
		r.Guard(c, func() {
			for i := 0; i < 3; i++ {
				check(r, ch, c)
			}
		})
	}
	r.Section("bytes<=2")
	for l := 0; l <= 2; l++ {
		gen.Tuples(l, 256, func(ix []int) bool {
			if !r.Mine() {
				return !r.Expired()
			}
			b := make([]byte, l)
			for i, x := range ix {
				b[i] = byte(x)
			}
			c := kase{Src: string(b), From: "bytes"}
			r.Guard(c, func() { check(r, ch, c) })
			return true
		})
	}
	r.Section(fmt.Sprintf("byte substitutions of %d seeds", nSeeds))
	for _, s := range seeds[:nSeeds] {
		for off := 0; off < len(s); off++ {
			for b := 0; b < 256; b++ {
				if !r.Mine() {
					continue
				}
				m := []byte(s)
				m[off] = byte(b)
				c := kase{Src: string(m), From: "subst"}
				r.Guard(c, func() { check(r, ch, c) })
			}
		}
		if r.Expired() {
			break
		}
	}
	for l := 1; l <= soupL; l++ {
		r.Section(fmt.Sprintf("soup tokens<=%d", l))
		gen.Tuples(l, len(soupTokens), func(ix []int) bool {
			if !r.Mine() {
				return !r.Expired()
			}
			parts := make([]string, l)
			for i, x := range ix {
				parts[i] = soupTokens[x]
			}
			c := kase{Src: strings.Join(parts, " "), From: "soup"}
			r.Guard(c, func() { check(r, ch, c) })
			return true
		})
	}
}

func replay(r *core.Run, raw json.RawMessage) {
	var c kase
	if err := json.Unmarshal(raw, &c); err != nil {
		r.EngineError(err.Error())
		return
	}
	ch := core.NewChild("c02", 30*time.Second)
	defer ch.Close()
	check(r, ch, c)
}

func srcKey(c kase) string {
	s := strings.TrimSpace(c.Src)
	s = strings.ReplaceAll(s, "\n", "; ")
	if c.From == "pg" {
		return s
	}
	return fmt.Sprintf("%q", s)
}

func check(r *core.Run, ch *core.Child, c kase) {
	c.Q = fmt.Sprintf("%q", c.Src)
	src := []byte(c.Src)
	// cheap pre-filter: inputs that do not parse never reach the evaluator; run
	// them in-process only (the parser's totality is C09's subject) but still
	// compare two runs.
	if _, err := parser.ParseFile("x.cue", src, parser.ParseComments); err != nil {
		a := pipeline(cuecontext.New(), src)
		b := pipeline(cuecontext.New(), src)
		r.Trans(2)
		if !bytes.Equal(a, b) {
			r.Violation("nondeterminism(parse-error text): "+srcKey(c), c, diff(a, b))
		}
		r.Outcome("parse-error")
		return
	}
	out, died, se := ch.Call(src)
	r.Trans(3)
	if died {
		first := "helper process died"
		for _, l := range strings.Split(se, "\n") {
			if strings.HasPrefix(l, "fatal error:") || strings.HasPrefix(l, "timeout") || strings.HasPrefix(l, "panic:") {
				first = strings.TrimSpace(l)
				break
			}
		}
		if len(first) > 80 {
			first = first[:80]
		}
		r.Violation("crash: "+first+": "+srcKey(c), c, se)
		r.Outcome("crash")
		return
	}
	if len(out) < 1 {
		r.EngineError("short child response")
		return
	}
	flags, body := out[0], out[1:]
	if flags&1 != 0 {
		r.Violation("panic: "+firstLine(string(body))+": "+srcKey(c), c, string(body))
		return
	}
	if flags&2 != 0 {
		r.Violation("nondeterminism(same context): "+srcKey(c), c, string(body))
		return
	}
	if flags&4 != 0 {
		r.Violation("nondeterminism(fresh context): "+srcKey(c), c, string(body))
		return
	}
	mine := pipeline(cuecontext.New(), src)
	r.Trans(1)
	if !bytes.Equal(mine, body) {
		r.Violation("nondeterminism(other process): "+srcKey(c), c, diff(body, mine))
		return
	}
	r.State(string(body))
	r.Nontrivial()
	if bytes.Contains(body, []byte("\nERR ")) {
		r.Outcome("eval-error")
	} else {
		r.Outcome("eval-ok")
	}
	r.Sample(map[string]string{"src": c.Src, "output": head(string(body), 300)})
}

func firstLine(s string) string {
	if i := strings.IndexByte(s, '\n'); i >= 0 {
		s = s[:i]
	}
	if len(s) > 100 {
		s = s[:100]
	}
	return s
}

func head(s string, n int) string {
	if len(s) > n {
		return s[:n] + "…"
	}
	return s
}

func diff(a, b []byte) string {
	i := 0
	for i < len(a) && i < len(b) && a[i] == b[i] {
		i++
	}
	lo := i - 200
	if lo < 0 {
		lo = 0
	}
	return fmt.Sprintf("outputs differ at byte %d\n--- first ---\n%s\n--- second ---\n%s", i, head(string(a[lo:]), 800), head(string(b[lo:]), 800))
}

// childFn: run the pipeline twice in one context and once in a fresh one.
// Response: flags byte (1 panic, 2 same-ctx differs, 4 fresh-ctx differs) + body.
func childFn(in []byte) (res []byte) {
	defer func() {
		if e := recover(); e != nil {
			res = append([]byte{1}, []byte(fmt.Sprint(e))...)
		}
	}()
	ctx := cuecontext.New()
	a := pipeline(ctx, in)
	b := pipeline(ctx, in)
	if !bytes.Equal(a, b) {
		return append([]byte{2}, diff(a, b)...)
	}
	c := pipeline(cuecontext.New(), in)
	if !bytes.Equal(a, c) {
		return append([]byte{4}, diff(a, c)...)
	}
	return append([]byte{0}, a...)
}

func pipeline(ctx *cue.Context, src []byte) []byte {
	var out bytes.Buffer
	werr := func(stage string, err error) {
		if err != nil {
			fmt.Fprintf(&out, "\nERR %s: %s", stage, errors.Details(err, nil))
		} else {
			fmt.Fprintf(&out, "\nok %s", stage)
		}
	}
	f, err := parser.ParseFile("x.cue", src, parser.ParseComments)
	if err != nil {
		werr("parse", err)
		return out.Bytes()
	}
	v := ctx.BuildFile(f)
	werr("build", v.Err())
	werr("validate", v.Validate())
	werr("concrete", v.Validate(cue.Concrete(true)))
	for _, prof := range []struct {
		n string
		o []cue.Option
	}{{"all", []cue.Option{cue.All()}}, {"final", []cue.Option{cue.Final()}}, {"default", nil}} {
		n := v.Syntax(prof.o...)
		b, err := format.Node(n)
		werr("syntax-"+prof.n, err)
		out.Write(b)
	}
	j, err := v.MarshalJSON()
	werr("json", err)
	out.Write(j)
	y, err := yaml.Encode(v)
	werr("yaml", err)
	out.Write(y)
	return out.Bytes()
}

// ---- operator and builtin boundary matrix ----

var operands = []string{"-1", "0", "1", "2", "-9223372036854775808", "9223372036854775807", "18446744073709551616", "1000001", "-0.5", "0.0", "1e400", `"ab"`, `""`, "'ab'", "[1, 2]", "[]", "{a: 1}", "null", "true", "int", "string", "_|_", ">5", "*1 | 2"}

var binops = []string{"+", "-", "*", "/", "div", "mod", "quo", "rem", "&", "|", "==", "!=", "<", "<=", ">", ">=", "=~", "!~", "&&", "||"}

var intArgs = []string{"-1", "0", "1", "2", "1000001", "9223372036854775807", "-9223372036854775808", "18446744073709551616"}

var rangeArgs = []string{"-1", "0", "1", "2", "5", "9223372036854775807", "-9223372036854775808", "18446744073709551616"}

// builtin calls with N, M, K standing for integer arguments
var builtinCalls = []string{
	`strings.Repeat("ab", N)`, `strings.SplitN("a,b,c", ",", N)`, `strings.Replace("aaa", "a", "b", N)`, `strings.ByteAt("ab", N)`,
	`strings.ByteSlice("abc", N, M)`, `strings.SliceRunes("abc", N, M)`, `strings.Runes("ab")[N]`, `"ab" & strings.MinRunes(N)`, `"ab" & strings.MaxRunes(N)`,
	`list.Repeat([1], N)`, `list.Take([1, 2], N)`, `list.Drop([1, 2], N)`, `list.Slice([1, 2, 3], N, M)`, `list.Range(N, M, K)`, `list.FlattenN([[1, [2]]], N)`,
	`[1, 2] & list.MinItems(N)`, `[1, 2] & list.MaxItems(N)`, `[1, 2][N]`, `"abc"[N]`, `'abc'[N]`,
	`math.Pow(N, M)`, `math.Exp2(N)`, `math.Ldexp(1.5, N)`, `math.MultipleOf(N, M)`,
	`strconv.FormatInt(N, M)`, `strconv.FormatUint(N, M)`, `strconv.ParseInt("12", N, M)`, `strconv.ParseUint("12", N, M)`, `strconv.FormatFloat(1.5, 102, N, M)`, `strconv.ParseFloat("1.5", N)`,
	`bits.Lsh(N, M)`, `bits.Rsh(N, M)`, `bits.At(N, M)`, `bits.Set(N, M, 1)`, `bits.Len(N)`,
	`struct.MinFields(N) & {a: 1}`, `struct.MaxFields(N) & {a: 1}`,
	`time.Unix(N, M)`, `time.Duration(N)`, `net.IPv4 & "1.2.3.4"`, `base64.Decode(null, "ab==")`, `hex.Decode("zz")`,
	`text/template.Execute("{{.x}}", {x: N})`,
}

func matrix(r *core.Run, ch *core.Child) {
	r.Section(fmt.Sprintf("operator matrix: %d binary operators x %d^2 operands (literal and through a reference), 3 unary operators x operands", len(binops), len(operands)))
	for _, op := range binops {
		for _, a := range operands {
			for _, b := range operands {
				for ref := 0; ref < 2; ref++ {
					if ref == 1 && !(strings.HasPrefix(b, "-") || strings.HasPrefix(a, "-")) {
						continue // the reference form only for negative operands (literal folding differs)
					}
					if !r.Mine() {
						continue
					}
					src := fmt.Sprintf("x: %s %s %s\n", a, op, b)
					if ref == 1 {
						src = fmt.Sprintf("p: %s\nq: %s\nx: p %s q\n", a, b, op)
					}
					c := kase{Src: src, From: "matrix"}
					r.Guard(c, func() { check(r, ch, c) })
				}
			}
		}
		if r.Expired() {
			return
		}
	}
	for _, op := range []string{"-", "+", "!"} {
		for _, a := range operands {
			if !r.Mine() {
				continue
			}
			c := kase{Src: fmt.Sprintf("x: %s(%s)\n", op, a), From: "matrix"}
			r.Guard(c, func() { check(r, ch, c) })
		}
	}
	r.Section(fmt.Sprintf("builtin boundary matrix: %d calls x integer arguments from %d boundary values", len(builtinCalls), len(intArgs)))
	imports := "import (\n\t\"strings\"\n\t\"list\"\n\t\"math\"\n\t\"strconv\"\n\t\"math/bits\"\n\t\"struct\"\n\t\"time\"\n\t\"net\"\n\t\"encoding/base64\"\n\t\"encoding/hex\"\n\t\"text/template\"\n)\n"
	for _, call := range builtinCalls {
		nVars := 0
		for _, v := range []string{"N", "M", "K"} {
			if strings.Contains(call, v) {
				nVars++
			}
		}
		args := intArgs
		if strings.HasPrefix(call, "list.Range") {
			// no 1000001: half a million elements are legal and merely slow
			args = rangeArgs
		}
		gen.Tuples(nVars, len(args), func(ix []int) bool {
			if !r.Mine() {
				return !r.Expired()
			}
			e := call
			for i, v := range []string{"N", "M", "K"}[:nVars] {
				e = replaceIdent(e, v, args[ix[i]])
			}
			// only the imports that are used (unused imports are errors)
			c := kase{Src: usedImports(imports, e) + "x: " + e + "\n", From: "matrix"}
			r.Guard(c, func() { check(r, ch, c) })
			return true
		})
	}
}

// replaceIdent replaces the stand-alone identifier v (N, M, K) in e.
func replaceIdent(e, v, with string) string {
	var b strings.Builder
	for i := 0; i < len(e); i++ {
		isIdent := func(c byte) bool {
			return c == '_' || c == '.' || c == '"' || (c >= 'a' && c <= 'z') || (c >= 'A' && c <= 'Z') || (c >= '0' && c <= '9')
		}
		if e[i] == v[0] && (i == 0 || !isIdent(e[i-1])) && (i+1 == len(e) || !isIdent(e[i+1])) {
			b.WriteString(with)
			continue
		}
		b.WriteByte(e[i])
	}
	return b.String()
}

func usedImports(all, e string) string {
	var keep []string
	for _, l := range strings.Split(all, "\n") {
		t := strings.Trim(strings.TrimSpace(l), "\"")
		if t == "" || t == "import (" || t == ")" {
			continue
		}
		name := t[strings.LastIndex(t, "/")+1:]
		if strings.Contains(e, name+".") {
			keep = append(keep, "\t\""+t+"\"")
		}
	}
	if len(keep) == 0 {
		return ""
	}
	return "import (\n" + strings.Join(keep, "\n") + "\n)\n"
}
