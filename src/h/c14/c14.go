// Package c14: module version selection is minimal, sufficient and
// order/schedule independent; version comparison follows SemVer 2.0.
//
// This file: (a) E1 over requirement-graph families against a brute-force
// reachability oracle and invariants, (c) E1 over a version-string alphabet
// against a reference SemVer comparator. The schedule space (b) of the real
// 10-runner traversal is explored by the instrumented harness (sched.go).
package c14

import (
	"encoding/json"
	"fmt"
	"math/big"
	"sort"
	"strings"

	"cuelang.org/go/internal/mod/mvs"
	"cuelang.org/go/internal/mod/semver"
	"cuelang.org/go/internal/verif/core"
	"cuelang.org/go/internal/verif/gen"
	"cuelang.org/go/mod/module"
)

func init() {
	core.Register(&core.Prop{
		ID: "C14",
		Rule: "E1 bounded-exhaustive: (a) every requirement graph of family F1 (2 dependency modules x 3 versions: each node requires {nothing | one version} of the other module, target requires {nothing | one version} of each: 65536 graphs) and F2 (3 modules x 2 versions, <=4 edges quick / all thorough) and F3 (prerelease + extra versions), each with every requirement list reversed singly and pairwise, through mvs.BuildList / Req / Upgrade (one request; two requests incl. the same path twice) / UpgradeAll / Downgrade; (c) all pairs of a 2000-string version alphabet (valid, short, near-valid) through semver.Compare / IsValid / Canonical and Vs.Max. " +
			"Non-trivial = graphs where some module is selected above the version the target requires (an upgrade through a dependency) or that contain a cycle.",
		Assumptions: []string{"oracle (a): breadth-first reachability over requirement edges from every listed version, selected = maximum reached version per path (the definition of MVS); oracle (c): semver.org section 11 with math/big numeric identifiers, plus this package's documented v-prefix and vMAJOR[.MINOR] shorthands"},
		Run:         run, Replay: replay,
		RequireOutcomes: []string{"graph:ok", "semver:pair-ok", "schedule:ok"},
		BudgetQuick:     200, BudgetThorough: 1500,
	})
}

type kase struct {
	Kind   string              `json:"kind"` // graph | semver
	Graph  map[string][]string `json:"graph,omitempty"`
	Target []string            `json:"target,omitempty"`
	V, W   string              `json:"v,omitempty"`
}

var vs = module.Versions{}

// V is the opaque module version type handed to the generic mvs functions
// (mvs treats paths and versions as opaque; ordering comes from
// Vs.Max, i.e. the real semver comparison).
type V struct{ P, Ver string }

func (v V) Path() string    { return v.P }
func (v V) Version() string { return v.Ver }
func (v V) String() string  { return v.P + "@" + v.Ver }

func mod(p, v string) V { return V{p + ".test/m@v0", v} }

var target = V{"main.test/m@v0", ""}

// reqs is an in-memory requirement graph.
type reqs struct {
	g       map[V][]V
	reverse map[V]bool
	calls   map[V]int
	avail   map[string][]string // path -> sorted versions (for Upgrade/Previous)
}

func (r *reqs) Version(v V) string         { return v.Ver }
func (r *reqs) Path(v V) string            { return v.P }
func (r *reqs) New(p, v string) (V, error) { return V{p, v}, nil }
func (r *reqs) Max(v1, v2 string) string   { return vs.Max(v1, v2) }

func (r *reqs) Required(m V) ([]V, error) {
	l := r.g[m]
	if r.reverse[m] {
		l2 := make([]V, len(l))
		for i, x := range l {
			l2[len(l)-1-i] = x
		}
		return l2, nil
	}
	return l, nil
}

// Upgrade is the query "latest available version" (identity when the path
// has no listed versions).
func (r *reqs) Upgrade(m V) (V, error) {
	if vl := r.avail[m.Path()]; len(vl) > 0 {
		return V{m.Path(), vl[len(vl)-1]}, nil
	}
	return m, nil
}
func (r *reqs) Previous(m V) (V, error) {
	vl := r.avail[m.Path()]
	prev := "none"
	for _, v := range vl {
		if semver.Compare(v, m.Version()) < 0 {
			prev = v
		}
	}
	return V{m.Path(), prev}, nil
}

// oracle: BFS over requirement edges; selected = max reached version per path.
func oracle(tgt V, tgtReqs []V, g map[V][]V) (sel map[string]string, reached map[V]bool) {
	sel = map[string]string{}
	reached = map[V]bool{}
	queue := append([]V{}, tgtReqs...)
	for len(queue) > 0 {
		m := queue[0]
		queue = queue[1:]
		if reached[m] || m.Version() == "none" {
			continue
		}
		reached[m] = true
		if cur, ok := sel[m.Path()]; !ok || semver.Compare(m.Version(), cur) > 0 {
			sel[m.Path()] = m.Version()
		}
		queue = append(queue, g[m]...)
	}
	return
}

func listString(l []V) string {
	var p []string
	for _, m := range l {
		p = append(p, m.String())
	}
	return strings.Join(p, " ")
}

func graphKey(c kase) string {
	var ks []string
	for k, v := range c.Graph {
		ks = append(ks, k+"->["+strings.Join(v, ",")+"]")
	}
	sort.Strings(ks)
	return "target->[" + strings.Join(c.Target, ",") + "] " + strings.Join(ks, " ")
}

func parseMV(s string) V {
	p, v, _ := strings.Cut(s, "@")
	return mod(p, v)
}

func run(r *core.Run) {
	do := func(c kase) bool {
		if !r.Mine() {
			return !r.Expired()
		}
		r.Guard(c, func() { check(r, c) })
		return true
	}
	versions := []string{"v0.1.0", "v0.2.0", "v0.3.0"}
	// (b) schedules first: the sequential families below run the traversal on
	// real goroutines (shims in pass-through mode), whose stragglers must not
	// meet an active scheduler
	runSchedules(r)
	// F1
	r.Section("graphs F1: 2 modules x 3 versions")
	nodes := []string{}
	for _, p := range []string{"a", "b"} {
		for _, v := range versions {
			nodes = append(nodes, p+"@"+v)
		}
	}
	other := map[string]string{"a": "b", "b": "a"}
	gen.Tuples(len(nodes), 4, func(ix []int) bool {
		g := map[string][]string{}
		for i, n := range nodes {
			if ix[i] > 0 {
				g[n] = []string{other[n[:1]] + "@" + versions[ix[i]-1]}
			}
		}
		for ta := 0; ta < 4; ta++ {
			for tb := 0; tb < 4; tb++ {
				var t []string
				if ta > 0 {
					t = append(t, "a@"+versions[ta-1])
				}
				if tb > 0 {
					t = append(t, "b@"+versions[tb-1])
				}
				if !do(kase{Kind: "graph", Graph: g, Target: t}) {
					return false
				}
			}
		}
		return true
	})
	// F2: 3 modules x 2 versions; each node requires for each other module {none,v1,v2}
	maxEdges := 4
	if r.Thorough() {
		maxEdges = 99
	}
	r.Section(fmt.Sprintf("graphs F2: 3 modules x 2 versions, <=%d edges", maxEdges))
	v2 := versions[:2]
	mods := []string{"a", "b", "c"}
	var nodes2 []string
	for _, p := range mods {
		for _, v := range v2 {
			nodes2 = append(nodes2, p+"@"+v)
		}
	}
	gen.Tuples(len(nodes2), 9, func(ix []int) bool {
		edges := 0
		for _, x := range ix {
			if x%3 > 0 {
				edges++
			}
			if x/3 > 0 {
				edges++
			}
		}
		if edges > maxEdges {
			return true
		}
		g := map[string][]string{}
		for i, n := range nodes2 {
			var others []string
			for _, m := range mods {
				if m != n[:1] {
					others = append(others, m)
				}
			}
			var l []string
			if a := ix[i] % 3; a > 0 {
				l = append(l, others[0]+"@"+v2[a-1])
			}
			if b := ix[i] / 3; b > 0 {
				l = append(l, others[1]+"@"+v2[b-1])
			}
			if l != nil {
				g[n] = l
			}
		}
		// target requires a fixed spread of starting points
		for _, t := range [][]string{{"a@v0.1.0"}, {"a@v0.1.0", "b@v0.1.0"}, {"a@v0.2.0", "c@v0.1.0"}, {"a@v0.1.0", "b@v0.2.0", "c@v0.1.0"}} {
			if !do(kase{Kind: "graph", Graph: g, Target: t}) {
				return false
			}
		}
		return true
	})
	// F3: prerelease versions and a module requiring older versions of its dependants
	r.Section("graphs F3: prerelease versions, duplicates, self-cycles")
	pre := []string{"v0.1.0", "v0.2.0-pre", "v0.2.0"}
	var nodes3 []string
	for _, p := range []string{"a", "b"} {
		for _, v := range pre {
			nodes3 = append(nodes3, p+"@"+v)
		}
	}
	gen.Tuples(len(nodes3), 4, func(ix []int) bool {
		g := map[string][]string{}
		for i, n := range nodes3 {
			if ix[i] > 0 {
				o := other[n[:1]] + "@" + pre[ix[i]-1]
				g[n] = []string{o, o} // duplicate requirement
			}
		}
		for _, t := range [][]string{{"a@v0.1.0"}, {"a@v0.2.0-pre", "b@v0.1.0"}, {"b@v0.2.0", "a@v0.2.0-pre"}} {
			if !do(kase{Kind: "graph", Graph: g, Target: t}) {
				return false
			}
		}
		return true
	})
	// (c) versions
	vl := versionAlphabet()
	r.Section(fmt.Sprintf("semver: all pairs of %d version strings", len(vl)))
	for _, v := range vl {
		if !r.Mine() {
			continue
		}
		c := kase{Kind: "semver", V: v}
		r.Guard(c, func() { checkVersionRow(r, v, vl) })
		if r.Expired() {
			break
		}
	}
}

func replay(r *core.Run, raw json.RawMessage) {
	var c kase
	if err := json.Unmarshal(raw, &c); err != nil {
		r.EngineError(err.Error())
		return
	}
	if c.Kind == "sched" || c.Kind == "work" {
		r.EngineError("schedule cases are re-explored by the run; replay by choice sequence is printed in the violation detail")
		return
	}
	if c.Kind == "semver" {
		if c.W != "" {
			checkVersionRow(r, c.V, []string{c.W})
		} else {
			checkVersionRow(r, c.V, versionAlphabet())
		}
		return
	}
	check(r, c)
}

func build(c kase) (*reqs, []V) {
	rq := &reqs{g: map[V][]V{}, reverse: map[V]bool{}, avail: map[string][]string{}}
	seen := map[V]bool{}
	addAvail := func(m V) {
		if !seen[m] {
			seen[m] = true
			rq.avail[m.Path()] = append(rq.avail[m.Path()], m.Version())
		}
	}
	for n, l := range c.Graph {
		m := parseMV(n)
		addAvail(m)
		for _, x := range l {
			rq.g[m] = append(rq.g[m], parseMV(x))
			addAvail(parseMV(x))
		}
	}
	var t []V
	for _, x := range c.Target {
		t = append(t, parseMV(x))
		addAvail(parseMV(x))
	}
	for p := range rq.avail {
		semver.Sort(rq.avail[p])
	}
	rq.g[target] = t
	return rq, t
}

func check(r *core.Run, c kase) {
	rq, t := build(c)
	want, reached := oracle(target, t, rq.g)
	fail := func(kind, detail string) {
		r.Violation(kind+": "+graphKey(c), c, detail)
	}
	checkList := func(what string, list []V, want map[string]string) bool {
		if len(list) == 0 || list[0] != target {
			fail(what+": target is not first", listString(list))
			return false
		}
		got := map[string]string{}
		for i, m := range list[1:] {
			if _, dup := got[m.Path()]; dup {
				fail(what+": module listed twice", listString(list))
				return false
			}
			got[m.Path()] = m.Version()
			if i > 0 && list[i].Path() >= m.Path() {
				fail(what+": build list not sorted by path", listString(list))
				return false
			}
		}
		for p, v := range want {
			if g, ok := got[p]; !ok {
				fail(what+": reachable module missing (not sufficient)", fmt.Sprintf("missing %s@%s in %s", p, v, listString(list)))
				return false
			} else if semver.Compare(g, v) < 0 {
				fail(what+": selected version lower than a reachable requirement (not sufficient)", fmt.Sprintf("%s: selected %s, required %s", p, g, v))
				return false
			} else if semver.Compare(g, v) > 0 {
				fail(what+": selected version higher than the maximum required (not minimal)", fmt.Sprintf("%s: selected %s, max required %s", p, g, v))
				return false
			}
		}
		for p := range got {
			if _, ok := want[p]; !ok {
				fail(what+": unreachable module selected", fmt.Sprintf("%s in %s", p, listString(list)))
				return false
			}
		}
		return true
	}
	r.Trans(1)
	list, err := mvs.BuildList([]V{target}, rq)
	if err != nil {
		fail("BuildList fails", err.Error())
		return
	}
	if !checkList("BuildList", list, want) {
		return
	}
	base := listString(list)
	// order independence: reverse each requirement list, and each pair of lists
	var keys []V
	for m, l := range rq.g {
		if len(l) > 1 {
			keys = append(keys, m)
		}
	}
	sort.Slice(keys, func(i, j int) bool { return keys[i].String() < keys[j].String() })
	for i := range keys {
		for j := i; j < len(keys); j++ {
			rq.reverse = map[V]bool{keys[i]: true, keys[j]: true}
			l2, err := mvs.BuildList([]V{target}, rq)
			r.Trans(1)
			if err != nil || listString(l2) != base {
				fail("BuildList depends on requirement order", fmt.Sprintf("%s vs %s (%v)", base, listString(l2), err))
				return
			}
		}
	}
	rq.reverse = map[V]bool{}
	// Req: minimal requirement list that regenerates the same build list
	min, err := mvs.Req(target, nil, rq)
	r.Trans(1)
	if err != nil {
		fail("Req fails", err.Error())
		return
	}
	g2 := map[V][]V{}
	for k, v := range rq.g {
		g2[k] = v
	}
	g2[target] = min
	w2, _ := oracle(target, min, g2)
	if fmt.Sprint(w2) != fmt.Sprint(want) {
		fail("Req does not regenerate the build list", fmt.Sprintf("Req=%s gives %v, want %v", listString(min), w2, want))
		return
	}
	for i := range min {
		rest := append(append([]V{}, min[:i]...), min[i+1:]...)
		if w3, _ := oracle(target, rest, g2); fmt.Sprint(w3) == fmt.Sprint(want) {
			fail("Req is not minimal", fmt.Sprintf("Req=%s; %s can be dropped", listString(min), min[i]))
			return
		}
	}
	// Upgrade each reachable-or-listed version individually
	for _, n := range sortedNodes(rq) {
		up, err := mvs.Upgrade(target, rq, n)
		r.Trans(1)
		if err != nil {
			fail("Upgrade fails", err.Error())
			return
		}
		// oracle: target's list with n added (max wins by BFS)
		wu, _ := oracle(target, append(append([]V{}, t...), n), rq.g)
		if !checkList("Upgrade("+n.String()+")", up, wu) {
			return
		}
	}
	// Upgrade with two requests: the same path twice (both orders; the higher
	// request wins) and two different paths
	nodes := sortedNodes(rq)
	for i, n1 := range nodes {
		for j, n2 := range nodes {
			if i == j || (n1.Path() != n2.Path() && i > j) {
				continue
			}
			up, err := mvs.Upgrade(target, rq, n1, n2)
			r.Trans(1)
			if err != nil {
				fail("Upgrade fails", err.Error())
				return
			}
			// requests for one path collapse to the highest one
			add := []V{n1, n2}
			if n1.Path() == n2.Path() {
				add = []V{n1}
				if semver.Compare(n2.Version(), n1.Version()) > 0 {
					add = []V{n2}
				}
			}
			wu, _ := oracle(target, append(append([]V{}, t...), add...), rq.g)
			if !checkList("Upgrade("+n1.String()+", "+n2.String()+")", up, wu) {
				return
			}
		}
	}
	// UpgradeAll: every module met is also required at its latest version
	{
		gu := map[V][]V{}
		latest := func(m V) V { u, _ := rq.Upgrade(m); return u }
		for m, l := range rq.g {
			gu[m] = append([]V{}, l...)
		}
		for _, n := range nodes {
			if u := latest(n); u != n {
				gu[n] = append(gu[n], u)
			}
		}
		ua, err := mvs.UpgradeAll(target, rq)
		r.Trans(1)
		if err != nil {
			fail("UpgradeAll fails", err.Error())
			return
		}
		wa, _ := oracle(target, t, gu)
		if !checkList("UpgradeAll", ua, wa) {
			return
		}
	}
	// Downgrade each selected module to each lower available version
	for p, v := range want {
		for _, lower := range rq.avail[p] {
			if semver.Compare(lower, v) >= 0 {
				continue
			}
			d := V{p, lower}
			dl, err := mvs.Downgrade(target, rq, d)
			r.Trans(1)
			if err != nil {
				fail("Downgrade fails", err.Error())
				return
			}
			sel := map[string]string{}
			for _, m := range dl[1:] {
				sel[m.Path()] = m.Version()
			}
			if g, ok := sel[p]; ok && semver.Compare(g, lower) > 0 {
				fail("Downgrade selects above the requested version", fmt.Sprintf("downgrade %s: got %s", d, listString(dl)))
				return
			}
			// the result must be a consistent build list: closed under the requirements of what it selects
			for _, m := range dl[1:] {
				for _, q := range rq.g[m] {
					if g, ok := sel[q.Path()]; !ok || semver.Compare(g, q.Version()) < 0 {
						fail("Downgrade result is not closed under requirements", fmt.Sprintf("downgrade %s: %s requires %s, list %s", d, m, q, listString(dl)))
						return
					}
				}
			}
		}
	}
	// the production path: the incremental mvs.Graph with real module.Version
	// values, as modrequirements uses it, fed in three traversal orders
	if msg := checkGraph(c, want); msg != "" {
		fail("mvs.Graph (incremental, module.Version) disagrees with the oracle", msg)
		return
	}
	r.Outcome("graph:ok")
	r.State(graphKey(c))
	// non-trivial: upgrade through a dependency or a cycle
	nt := false
	for _, m := range t {
		if want[m.Path()] != m.Version() {
			nt = true
		}
	}
	if len(reached) > len(want) {
		nt = true
	}
	if nt {
		r.Nontrivial()
		r.Sample(map[string]any{"graph": graphKey(c), "build_list": base})
	}
}

func checkGraph(c kase, want map[string]string) string {
	mk := func(s string) module.Version {
		p, v, _ := strings.Cut(s, "@")
		return module.MustNewVersion(p+".test/m@v0", v)
	}
	cmp := func(v1, v2 string) int {
		if v1 == "none" && v2 == "none" {
			return 0
		}
		if vs.Max(v1, v2) != v1 {
			return -1
		}
		if vs.Max(v2, v1) != v2 {
			return 1
		}
		return 0
	}
	main := module.MustNewVersion("main.test/m@v0", "")
	req := map[module.Version][]module.Version{}
	for n, l := range c.Graph {
		for _, x := range l {
			req[mk(n)] = append(req[mk(n)], mk(x))
		}
	}
	for _, x := range c.Target {
		req[main] = append(req[main], mk(x))
	}
	for order := 0; order < 3; order++ {
		g := mvs.NewGraph[module.Version](module.Versions{}, cmp, []module.Version{main})
		// worklist traversal: order 0 FIFO, 1 LIFO, 2 FIFO with reversed requirement lists
		work := []module.Version{main}
		done := map[module.Version]bool{}
		for len(work) > 0 {
			var m module.Version
			if order == 1 {
				m, work = work[len(work)-1], work[:len(work)-1]
			} else {
				m, work = work[0], work[1:]
			}
			if done[m] {
				continue
			}
			done[m] = true
			l := append([]module.Version{}, req[m]...)
			if order == 2 {
				for i, j := 0, len(l)-1; i < j; i, j = i+1, j-1 {
					l[i], l[j] = l[j], l[i]
				}
			}
			g.Require(m, l)
			work = append(work, l...)
		}
		for p, v := range want {
			if got := g.Selected(p); got != v {
				return fmt.Sprintf("order %d: Selected(%s)=%s, oracle %s", order, p, got, v)
			}
		}
		bl := g.BuildList()
		if len(bl) != len(want)+1 || bl[0] != main {
			return fmt.Sprintf("order %d: BuildList %v, oracle %v", order, bl, want)
		}
		for i, m := range bl[1:] {
			if want[m.Path()] != m.Version() {
				return fmt.Sprintf("order %d: BuildList has %s, oracle %v", order, m, want)
			}
			if i > 0 && bl[i].Path() >= m.Path() {
				return fmt.Sprintf("order %d: BuildList not sorted: %v", order, bl)
			}
		}
	}
	return ""
}

func sortedNodes(rq *reqs) []V {
	var out []V
	for p, vl := range rq.avail {
		for _, v := range vl {
			out = append(out, V{p, v})
		}
	}
	sort.Slice(out, func(i, j int) bool { return out[i].String() < out[j].String() })
	return out
}

// ---------- (c) version order ----------

func versionAlphabet() []string {
	var out []string
	seen := map[string]bool{}
	add := func(s string) {
		if !seen[s] {
			seen[s] = true
			out = append(out, s)
		}
	}
	majors := []string{"0", "1", "2", "10", "01"}
	minors := []string{"0", "1", "10"}
	patches := []string{"0", "1", "00"}
	pres := []string{"", "-0", "-1", "-2", "-10", "-a", "-A", "-a.1", "-a.b", "-1a", "-a-", "-01", "-", "-a.", "-a..b", "-1.2", "-a.10", "-a.2", "-rc.1", "-0a"}
	builds := []string{"", "+x", "+1.2", "+", "+x+y"}
	for _, ma := range majors {
		for _, mi := range minors {
			for _, pa := range patches {
				for _, pr := range pres {
					for _, b := range builds {
						if b != "" && (mi == "10" || pa == "00") {
							continue
						}
						add("v" + ma + "." + mi + "." + pa + pr + b)
					}
				}
			}
		}
	}
	for _, s := range []string{"v1", "v1.2", "v0", "v10", "v01", "v1.0", "v1.01", "v1-pre", "v1.2-pre", "v1+x", "v1.2+x", "1.0.0", "v", "", "v1.0.0.0", "v1.0.0-", "V1.0.0", "v1.0.0 ", " v1.0.0", "v-1.0.0", "v1..0", "v٣.0.0", "v1.0.0-é", "v1.0.0-a_b", "none", "v1.0.0+", "v1.0.0-+x", "v1.0.x"} {
		add(s)
	}
	return out
}

type sv struct {
	nums [3]*big.Int
	pre  []string
}

func isNumeric(s string) bool {
	if s == "" {
		return false
	}
	for _, c := range s {
		if c < '0' || c > '9' {
			return false
		}
	}
	return true
}

func identOK(s string, numericNoLeadingZero bool) bool {
	if s == "" {
		return false
	}
	for _, c := range s {
		if !(c >= '0' && c <= '9' || c >= 'a' && c <= 'z' || c >= 'A' && c <= 'Z' || c == '-') {
			return false
		}
	}
	if numericNoLeadingZero && isNumeric(s) && len(s) > 1 && s[0] == '0' {
		return false
	}
	return true
}

// refParse implements semver.org 2.0.0 with the documented v prefix and the
// vMAJOR / vMAJOR.MINOR shorthands (which take no prerelease or build).
func refParse(v string) (sv, bool) {
	var out sv
	if !strings.HasPrefix(v, "v") {
		return out, false
	}
	v = v[1:]
	core, build, hasBuild := strings.Cut(v, "+")
	if hasBuild {
		for _, id := range strings.Split(build, ".") {
			if !identOK(id, false) {
				return out, false
			}
		}
	}
	core, pre, hasPre := strings.Cut(core, "-")
	if hasPre {
		for _, id := range strings.Split(pre, ".") {
			if !identOK(id, true) {
				return out, false
			}
		}
		out.pre = strings.Split(pre, ".")
	}
	parts := strings.Split(core, ".")
	if len(parts) > 3 || len(parts) < 1 {
		return out, false
	}
	if len(parts) < 3 && (hasPre || hasBuild) {
		return out, false
	}
	for i := 0; i < 3; i++ {
		out.nums[i] = new(big.Int)
		if i < len(parts) {
			p := parts[i]
			if !isNumeric(p) || len(p) > 1 && p[0] == '0' {
				return out, false
			}
			out.nums[i].SetString(p, 10)
		}
	}
	return out, true
}

func refCompare(v, w string) int {
	a, ok1 := refParse(v)
	b, ok2 := refParse(w)
	switch {
	case !ok1 && !ok2:
		return 0
	case !ok1:
		return -1
	case !ok2:
		return 1
	}
	for i := 0; i < 3; i++ {
		if c := a.nums[i].Cmp(b.nums[i]); c != 0 {
			return c
		}
	}
	switch {
	case a.pre == nil && b.pre == nil:
		return 0
	case a.pre == nil:
		return 1
	case b.pre == nil:
		return -1
	}
	for i := 0; i < len(a.pre) && i < len(b.pre); i++ {
		x, y := a.pre[i], b.pre[i]
		if x == y {
			continue
		}
		nx, ny := isNumeric(x), isNumeric(y)
		switch {
		case nx && ny:
			bx, _ := new(big.Int).SetString(x, 10)
			by, _ := new(big.Int).SetString(y, 10)
			return bx.Cmp(by)
		case nx:
			return -1
		case ny:
			return 1
		case x < y:
			return -1
		default:
			return 1
		}
	}
	switch {
	case len(a.pre) < len(b.pre):
		return -1
	case len(a.pre) > len(b.pre):
		return 1
	}
	return 0
}

func sign(x int) int {
	switch {
	case x < 0:
		return -1
	case x > 0:
		return 1
	}
	return 0
}

func checkVersionRow(r *core.Run, v string, all []string) {
	_, okRef := refParse(v)
	if semver.IsValid(v) != okRef {
		r.Violation(fmt.Sprintf("semver.IsValid(%q)=%v, reference grammar says %v", v, semver.IsValid(v), okRef), kase{Kind: "semver", V: v}, "")
		return
	}
	if semver.Compare(v, v) != 0 {
		r.Violation(fmt.Sprintf("semver.Compare(%q, itself) != 0", v), kase{Kind: "semver", V: v}, "")
		return
	}
	if okRef {
		if c := semver.Canonical(v); refCompare(c, v) != 0 || !semver.IsValid(c) {
			r.Violation(fmt.Sprintf("semver.Canonical(%q)=%q is not equivalent", v, c), kase{Kind: "semver", V: v}, "")
			return
		}
	}
	for _, w := range all {
		r.Trans(1)
		got, want := sign(semver.Compare(v, w)), refCompare(v, w)
		if got != want {
			r.Violation(fmt.Sprintf("semver.Compare(%q, %q)=%d, reference %d", v, w, got, want), kase{Kind: "semver", V: v, W: w}, "")
			return
		}
		if sign(semver.Compare(w, v)) != -got {
			r.Violation(fmt.Sprintf("semver.Compare not antisymmetric on (%q, %q)", v, w), kase{Kind: "semver", V: v, W: w}, "")
			return
		}
		// Max: consistent with Compare plus the "" / "none" specials
		if okRef {
			if _, ok := refParse(w); ok {
				m := vs.Max(v, w)
				wantMax := v
				if want < 0 {
					wantMax = w
				}
				if refCompare(m, wantMax) != 0 {
					r.Violation(fmt.Sprintf("Versions.Max(%q, %q)=%q", v, w, m), kase{Kind: "semver", V: v, W: w}, "")
					return
				}
			}
		}
	}
	if okRef {
		for _, special := range []struct{ a, b, want string }{{v, "none", v}, {"none", v, v}, {v, "", ""}, {"", v, ""}} {
			if m := vs.Max(special.a, special.b); m != special.want {
				r.Violation(fmt.Sprintf("Versions.Max(%q, %q)=%q, want %q", special.a, special.b, m, special.want), kase{Kind: "semver", V: v}, "")
				return
			}
		}
		r.Nontrivial()
	}
	r.Outcome("semver:pair-ok")
	r.State(v)
}
