// Command verifh hosts all non-instrumented harnesses.
package main

import (
	"cuelang.org/go/internal/verif/core"
	_ "cuelang.org/go/internal/verif/h/c01"
	_ "cuelang.org/go/internal/verif/h/c02"
	_ "cuelang.org/go/internal/verif/h/c03"
	_ "cuelang.org/go/internal/verif/h/c04"
	_ "cuelang.org/go/internal/verif/h/c05"
	_ "cuelang.org/go/internal/verif/h/c06"
	_ "cuelang.org/go/internal/verif/h/c07"
	_ "cuelang.org/go/internal/verif/h/c08"
	_ "cuelang.org/go/internal/verif/h/c10"
	_ "cuelang.org/go/internal/verif/h/c11"
	_ "cuelang.org/go/internal/verif/h/c12"
	_ "cuelang.org/go/internal/verif/h/c20"
	_ "cuelang.org/go/internal/verif/h/c13"
	_ "cuelang.org/go/internal/verif/h/c15"
	_ "cuelang.org/go/internal/verif/h/c09"
)

func main() { core.Main() }
