// Package racelog reads the reports that the Go race detector writes when a
// harness built with -race runs free (GORACE=log_path=...). The cooperative
// scheduler's hand-offs are happens-before edges that would blind the
// detector, so race passes always run on real goroutines.
package racelog

import (
	"fmt"
	"os"
	"sort"
	"strings"
)

var logPrefix = os.Getenv("VERIF_RACE_LOG")

// own returns the report file of this process (GORACE log_path=prefix makes
// the runtime write prefix.<pid>); other worker processes share the directory.
func own() string { return fmt.Sprintf("%s.%d", logPrefix, os.Getpid()) }

// Reports returns the number of race reports this process has written so far.
func Reports() int {
	if logPrefix == "" {
		return 0
	}
	b, _ := os.ReadFile(own())
	return strings.Count(string(b), "WARNING: DATA RACE")
}

// Last returns the text of the most recent report of this process.
func Last() string {
	b, _ := os.ReadFile(own())
	out := ""
	if i := strings.LastIndex(string(b), "WARNING: DATA RACE"); i >= 0 {
		out = string(b[i:])
	}
	if len(out) > 30000 {
		out = out[:30000]
	}
	return out
}

// Key identifies a report by its two access stacks: for each side the
// innermost repository function, the repository function the harness called
// (the API entry point) and the markers of known lazy-evaluation call sites.
// The two sides are sorted so that the key does not depend on which access
// the detector saw second.
func Key(rep string) string {
	var sides []string
	for _, st := range stacks(rep) {
		site, api, marks := "unknown", "unknown", ""
		for i, f := range st {
			if strings.Contains(f, "internal/verif") {
				if i > 0 {
					api = short(st[i-1])
				}
				break
			}
			if site == "unknown" && strings.HasPrefix(f, "cuelang.org/go/") {
				site = short(f)
			}
		}
		for i := 1; i < len(st); i++ {
			if strings.HasSuffix(st[i], "cue.(*Iterator).Next()") && strings.HasSuffix(st[i-1], "adt.(*Vertex).Finalize()") {
				marks = " lazy-finalize-in-Iterator.Next"
			}
		}
		sides = append(sides, fmt.Sprintf("%s [via %s%s]", site, api, marks))
	}
	sort.Strings(sides)
	return strings.Join(sides, " vs ")
}

func short(f string) string {
	f = strings.TrimSuffix(f, "()")
	return strings.TrimPrefix(f, "cuelang.org/go/")
}

// stacks returns the function names of the two access stacks of a report.
func stacks(rep string) [][]string {
	var out [][]string
	var cur []string
	in := false
	for _, l := range strings.Split(rep, "\n") {
		t := strings.TrimSpace(l)
		switch {
		case strings.HasPrefix(t, "Read at ") || strings.HasPrefix(t, "Write at ") || strings.HasPrefix(t, "Previous read at ") || strings.HasPrefix(t, "Previous write at ") || strings.HasPrefix(t, "Atomic ") || strings.HasPrefix(t, "Previous atomic "):
			in = true
			cur = nil
		case t == "" && in:
			in = false
			out = append(out, cur)
			if len(out) == 2 {
				return out
			}
		case in && !strings.HasPrefix(t, "/") && t != "":
			cur = append(cur, t)
		}
	}
	if in {
		out = append(out, cur)
	}
	return out
}

// Site extracts the first repository frame of a race report.
func Site(rep string) string {
	for _, l := range strings.Split(rep, "\n") {
		l = strings.TrimSpace(l)
		if strings.HasPrefix(l, "cuelang.org/go/") && !strings.Contains(l, "internal/verif") {
			if i := strings.LastIndex(l, "("); i > 0 && strings.HasSuffix(l, ")") {
				l = l[:i]
			}
			return l
		}
	}
	return "unknown site"
}
