package main

import (
	"fmt"
	"os"

	"cuelang.org/go/cue/cuecontext"
	"cuelang.org/go/cue/format"
	cuejson "cuelang.org/go/encoding/json"
	"cuelang.org/go/encoding/jsonschema"
)

func main() {
	ctx := cuecontext.New()
	e, _ := cuejson.Extract("schema.json", []byte(os.Args[1]))
	f, err := jsonschema.Extract(ctx.BuildExpr(e), &jsonschema.Config{StrictFeatures: true, DefaultVersion: jsonschema.VersionDraft2020_12})
	if err != nil {
		fmt.Println("extract err", err)
		return
	}
	b, _ := format.Node(f, format.Simplify())
	fmt.Println(string(b))
}
