package sched

import (
	"fmt"
	"os"
)

var traceExplore = os.Getenv("VERIF_SCHED_TRACE") != ""

// Stop, when set by a harness, is polled before every execution; once it
// reports true the exploration ends with Complete=false (soft time budget).
var Stop func() bool

// Result summarises an exploration.
type Result struct {
	Executions       int
	Points           int64 // scheduling steps executed (transitions)
	Bound            int
	Complete         bool // every schedule within the bound was run
	MaxPointsPerExec int
	EngineError      string
}

// Explore runs body under every schedule with at most bound deviations.
// mk must build a fresh instance of the system under test and return the body
// to run plus a function that checks the finished execution; check returns
// false to stop the exploration (a violation was recorded).
// budget is the maximum number of executions (0 = unlimited).
func Explore(bound int, maxSteps int, budget int, mk func() (body func(), check func(s *S) bool)) Result {
	return ExploreSharded(bound, maxSteps, budget, nil, mk)
}

// ExploreSharded is Explore for several cooperating processes: every process
// runs the default schedule; own is then asked once, in a deterministic order,
// for every subtree that starts with a single deviation from the default
// schedule, and the process explores only the subtrees it owns. The union
// over the processes is exactly the space Explore covers.
func ExploreSharded(bound int, maxSteps int, budget int, own func() bool, mk func() (body func(), check func(s *S) bool)) Result {
	res := Result{Bound: bound, Complete: true}
	type frame struct {
		prefix []int
		expect []string
		cost   int
	}
	stack := []frame{{nil, nil, 0}}
	for len(stack) > 0 {
		f := stack[len(stack)-1]
		stack = stack[:len(stack)-1]
		if budget > 0 && res.Executions >= budget {
			res.Complete = false
			return res
		}
		if Stop != nil && res.Executions > 0 && Stop() {
			res.Complete = false
			return res
		}
		body, check := mk()
		if traceExplore {
			fmt.Fprintf(os.Stderr, "sched: run %d prefix %v\n", res.Executions, f.prefix)
		}
		s := RunExpect(f.prefix, f.expect, maxSteps, false, body)
		res.Executions++
		res.Points += int64(s.Steps)
		if len(s.Points) > res.MaxPointsPerExec {
			res.MaxPointsPerExec = len(s.Points)
		}
		if s.Diverged != "" {
			// replay the same prefix once more before giving up
			body2, _ := mk()
			s2 := RunExpect(f.prefix, f.expect, maxSteps, false, body2)
			if s2.Diverged != "" {
				res.EngineError = fmt.Sprintf("nondeterminism: %s (prefix %v)", s.Diverged, f.prefix)
				res.Complete = false
				return res
			}
			s = s2
		}
		if !check(s) {
			res.Complete = false
			return res
		}
		// children: deviate at every point beyond the prefix
		cost := f.cost
		for i := len(f.prefix); i < len(s.Points); i++ {
			p := s.Points[i]
			for alt := 1; alt < p.N; alt++ {
				// Every non-default choice is a deviation: a preemption, a
				// non-default value, or - when the running thread blocked or
				// exited - picking another than the lowest-numbered enabled
				// thread. (Counting the last kind as free makes the space
				// factorial in the number of symmetric runners.)
				c := cost + 1
				if c > bound {
					continue
				}
				if own != nil && len(f.prefix) == 0 && !own() {
					continue
				}
				np := make([]int, i+1)
				ne := make([]string, i+1)
				for j := 0; j < i; j++ {
					np[j] = s.Points[j].Chosen
					ne[j] = s.Points[j].Desc
				}
				np[i] = alt
				ne[i] = p.Desc
				stack = append(stack, frame{np, ne, c})
			}
		}
	}
	return res
}
