package model

import (
	"sort"
	"strings"
)

// ---- value/default pairs (spec rules U0-U2, D0-D2, M0-M1) ----

// Leaf is a basic term: a scalar constraint or a small open struct.
type Leaf struct {
	Src    string
	C      *Constraint       // scalar leaf
	Fields map[string]string // struct leaf: label -> leaf source ("1", "int")
}

// Conj is a conjunction of leaves (one disjunct after distribution).
type Conj []Leaf

// Pair is ⟨V, D⟩; D == nil means no default.
type Pair struct {
	V []Conj
	D []Conj
}

// Expr is an expression tree over leaves.
type Expr struct {
	Op    string // "leaf", "&", "|"
	Leaf  Leaf
	Args  []*Expr
	Marks []bool // for "|": mark per argument
}

func (e *Expr) String() string {
	switch e.Op {
	case "leaf":
		return e.Leaf.Src
	case "&":
		return "(" + e.Args[0].String() + " & " + e.Args[1].String() + ")"
	default:
		var parts []string
		for i, a := range e.Args {
			s := a.String()
			if e.Marks[i] {
				s = "*" + s
			}
			parts = append(parts, s)
		}
		return "(" + strings.Join(parts, " | ") + ")"
	}
}

func (e *Expr) HasMark() bool {
	if e.Op == "|" {
		for _, m := range e.Marks {
			if m {
				return true
			}
		}
	}
	for _, a := range e.Args {
		if a.HasMark() {
			return true
		}
	}
	return false
}

// term is one disjunct with its default flag.
type term struct {
	c   Conj
	def bool
}

type val struct {
	terms  []term
	hasDef bool
}

// Eval applies the spec rules U0-U2, D0-D2, M0-M1 together with the spec's
// elimination sentence ("if all the marked disjuncts of a marked disjunction
// are eliminated [during unification], the remaining unmarked disjuncts are
// considered as if they originated from an unmarked disjunction").
func Eval(e *Expr, universe []Atom) Pair {
	v := eval(e, universe)
	p := Pair{}
	for _, t := range v.terms {
		p.V = append(p.V, t.c)
	}
	if v.hasDef {
		p.D = []Conj{}
		for _, t := range v.terms {
			if t.def {
				p.D = append(p.D, t.c)
			}
		}
	}
	return p
}

func eval(e *Expr, universe []Atom) val {
	switch e.Op {
	case "leaf":
		return val{terms: []term{{c: Conj{e.Leaf}}}}
	case "&":
		a, b := eval(e.Args[0], universe), eval(e.Args[1], universe)
		type combo struct{ ta, tb term }
		var cs []combo
		usedA, usedB := false, false
		for _, x := range a.terms {
			for _, y := range b.terms {
				c := append(append(Conj{}, x.c...), y.c...)
				if _, ok, _ := c.Norm(universe); !ok {
					continue // failed disjuncts never change the outcome
				}
				cs = append(cs, combo{x, y})
				usedA = usedA || x.def
				usedB = usedB || y.def
			}
		}
		// elimination: a disjunction whose marked disjuncts are all gone is unmarked
		aDef, bDef := a.hasDef && usedA, b.hasDef && usedB
		out := val{hasDef: aDef || bDef}
		for _, c := range cs {
			t := term{c: append(append(Conj{}, c.ta.c...), c.tb.c...)}
			if out.hasDef {
				t.def = (!aDef || c.ta.def) && (!bDef || c.tb.def) // U1, U2
			}
			out.terms = append(out.terms, t)
		}
		return out
	default: // "|"
		var out val
		for i, arg := range e.Args {
			a := eval(arg, universe)
			for _, t := range a.terms {
				d := t.def && a.hasDef // D1, D2
				if e.Marks[i] {
					d = true // M1 (marks on terms with defaults are not generated)
				}
				out.terms = append(out.terms, term{c: t.c, def: d})
			}
			out.hasDef = out.hasDef || a.hasDef || e.Marks[i]
		}
		return out
	}
}

// Norm is the evaluated normal form of one disjunct: "" if it fails.
// Scalars: the pinned atom, or the sorted set of remaining constraints.
// Structs: merged fields. concrete reports whether it is concrete data.
func (c Conj) Norm(universe []Atom) (key string, ok bool, concrete bool) {
	var scal []*Constraint
	fields := map[string][]string{}
	isStruct := false
	for _, l := range c {
		if l.Fields != nil {
			isStruct = true
			for k, v := range l.Fields {
				fields[k] = append(fields[k], v)
			}
		} else {
			scal = append(scal, l.C)
		}
	}
	if isStruct {
		if len(scal) > 0 {
			return "", false, false
		}
		var keys []string
		for k := range fields {
			keys = append(keys, k)
		}
		sort.Strings(keys)
		var parts []string
		concrete = true
		for _, k := range keys {
			// values are "1" or "int": int & 1 = 1
			v := "int"
			for _, x := range fields[k] {
				if x != "int" {
					if v != "int" && v != x {
						return "", false, false
					}
					v = x
				}
			}
			if v == "int" {
				concrete = false
			}
			parts = append(parts, k+":"+v)
		}
		return "{" + strings.Join(parts, ",") + "}", true, concrete
	}
	// scalar: denotation over the universe
	var sat []Atom
	for _, a := range universe {
		all := true
		for _, s := range scal {
			if !s.Sat(a) {
				all = false
				break
			}
		}
		if all {
			sat = append(sat, a)
		}
	}
	if len(sat) == 0 {
		return "", false, false
	}
	// pinned by an atom leaf?
	for _, s := range scal {
		for _, a := range universe {
			if s.Src == a.Src {
				return a.Src, true, true
			}
		}
	}
	var names []string
	for _, s := range scal {
		names = append(names, s.Src)
	}
	sort.Strings(names)
	u := names[:0]
	for i, n := range names {
		if i == 0 || n != names[i-1] {
			u = append(u, n)
		}
	}
	// the denotation is part of the key: `int & >=2` and `>=2` differ on 2.5
	var den []string
	for _, a := range sat {
		den = append(den, a.Src)
	}
	return "den(" + strings.Join(den, " ") + ")", true, false
}

// Survivors returns the distinct surviving disjuncts (normal forms).
func Survivors(cs []Conj, universe []Atom) (keys []string, concrete map[string]bool) {
	concrete = map[string]bool{}
	seen := map[string]bool{}
	for _, c := range cs {
		k, ok, conc := c.Norm(universe)
		if !ok || seen[k] {
			continue
		}
		seen[k] = true
		keys = append(keys, k)
		concrete[k] = conc
	}
	return
}

// AcceptsAtom: does the value accept atom a (union over disjuncts)?
func (p Pair) AcceptsAtom(a Atom) bool {
	for _, c := range p.V {
		ok := true
		for _, l := range c {
			if l.Fields != nil || !l.C.Sat(a) {
				ok = false
				break
			}
		}
		if ok {
			return true
		}
	}
	return false
}

// AcceptsStruct: is the closed data struct d (label -> int value source) an
// instance of some disjunct?
func (p Pair) AcceptsStruct(d map[string]string) bool {
	for _, c := range p.V {
		ok := true
		for _, l := range c {
			if l.Fields == nil {
				ok = false
				break
			}
			for k, v := range l.Fields {
				dv, has := d[k]
				if !has || (v != "int" && v != dv) {
					ok = false
				}
			}
		}
		if ok {
			return true
		}
	}
	return false
}

// DisjLeaves is the leaf alphabet of C04.
func DisjLeaves() []Leaf {
	sc := func(c Constraint) Leaf { return Leaf{Src: c.Src, C: &c} }
	return []Leaf{
		sc(AtomC(Int(1))), sc(AtomC(Int(2))), sc(AtomC(Int(3))), sc(AtomC(Str("a"))),
		sc(TypeC("int")), sc(TypeC("string")), sc(BoundC(">=", Int(2))), sc(BoundC("<=", Int(2))),
		{Src: "{a: 1}", Fields: map[string]string{"a": "1"}},
		{Src: "{b: 1}", Fields: map[string]string{"b": "1"}},
		{Src: "{a: int}", Fields: map[string]string{"a": "int"}},
	}
}

// DisjUniverse is the scalar universe used for denotations and probes.
func DisjUniverse() []Atom {
	return []Atom{Int(1), Int(2), Int(3), Int(4), Float("2.5"), Float("2.0"), Str("a"), Str("b"), Null()}
}
