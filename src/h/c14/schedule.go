package c14

import (
	"fmt"
	"os"
	"sort"
	"strings"

	"cuelang.org/go/internal/mod/mvs"
	"cuelang.org/go/internal/par"
	"cuelang.org/go/internal/verif/core"
	"cuelang.org/go/internal/verif/sched"
)

// (b) schedule space of the real traversal: par.Work (instrumented) under the
// controlled scheduler.

type schedGraph struct {
	name   string
	target []string
	g      map[string][]string
	errAt  string // node whose Required fails
}

var schedGraphs = []schedGraph{
	{name: "chain", target: []string{"a@v0.1.0"}, g: map[string][]string{"a@v0.1.0": {"b@v0.1.0"}, "b@v0.1.0": {"c@v0.1.0"}}},
	{name: "diamond", target: []string{"a@v0.1.0", "b@v0.1.0"}, g: map[string][]string{"a@v0.1.0": {"c@v0.1.0"}, "b@v0.1.0": {"c@v0.2.0"}}},
	{name: "diamond-late-upgrade", target: []string{"a@v0.1.0", "b@v0.1.0"}, g: map[string][]string{"b@v0.1.0": {"c@v0.1.0"}, "a@v0.1.0": {"b@v0.2.0"}, "b@v0.2.0": {"c@v0.2.0"}}},
	{name: "cycle", target: []string{"a@v0.1.0"}, g: map[string][]string{"a@v0.1.0": {"b@v0.1.0"}, "b@v0.1.0": {"a@v0.2.0"}, "a@v0.2.0": {"b@v0.1.0"}}},
	{name: "older-dependants", target: []string{"a@v0.2.0"}, g: map[string][]string{"a@v0.2.0": {"b@v0.2.0"}, "b@v0.2.0": {"a@v0.1.0"}, "a@v0.1.0": {"b@v0.1.0", "c@v0.1.0"}}},
	{name: "fan-out", target: []string{"a@v0.1.0"}, g: map[string][]string{"a@v0.1.0": {"b@v0.1.0", "c@v0.1.0", "d@v0.1.0", "e@v0.1.0"}}},
	{name: "duplicates", target: []string{"a@v0.1.0", "a@v0.1.0"}, g: map[string][]string{"a@v0.1.0": {"b@v0.1.0", "b@v0.1.0"}}},
	{name: "error-at-leaf", target: []string{"a@v0.1.0"}, g: map[string][]string{"a@v0.1.0": {"b@v0.1.0", "c@v0.1.0"}}, errAt: "c@v0.1.0"},
}

type schedReqs struct {
	reqs
	calls map[V]int
	errAt V
}

func (r *schedReqs) Required(m V) ([]V, error) {
	sched.Yield("required") // latency of the requirement lookup: a scheduling point
	r.calls[m]++
	if m == r.errAt && r.errAt.P != "" {
		return nil, fmt.Errorf("boom")
	}
	return r.g[m], nil
}

func runSchedules(r *core.Run) {
	sched.Stop = r.Expired // soft time budget: explorations end with Complete=false
	quickBound, budget := 2, 150000
	if r.Thorough() {
		quickBound, budget = 3, 3000000
	}
	r.Section(fmt.Sprintf("schedules of mvs.BuildList (10 runners) with <=%d deviations on %d graphs", quickBound, len(schedGraphs)))
	for _, sg := range schedGraphs {
		// every worker takes part in every exploration and owns a share of its
		// first-level subtrees (sched.ExploreSharded)
		if mine := r.Mine(); (r.Only > 0 && !mine) || r.Expired() {
			continue
		}
		sg := sg
		c := kase{Kind: "sched", Graph: sg.g, Target: sg.target, V: sg.name}
		r.Guard(c, func() { exploreBuildList(r, c, sg, quickBound, budget) })
	}
	r.Section("par.Work alone: Do(n) for n in {2,3}, 3 items where item 0 adds items 1 and 2")
	for _, n := range []int{2, 3} {
		if mine := r.Mine(); (r.Only > 0 && !mine) || r.Expired() {
			continue
		}
		n := n
		c := kase{Kind: "work", V: fmt.Sprint(n)}
		r.Guard(c, func() { exploreWork(r, c, n, quickBound+2, budget*4) })
	}
}

func exploreBuildList(r *core.Run, c kase, sg schedGraph, bound, budget int) {
	if os.Getenv("VERIF_DEBUG") != "" {
		var traces [2][]string
		for i := 0; i < 2; i++ {
			base, _ := build(kase{Graph: sg.g, Target: sg.target})
			rq := &schedReqs{reqs: *base, calls: map[V]int{}}
			s := sched.Run(nil, 200000, true, func() { mvs.BuildList([]V{target}, rq) })
			traces[i] = s.Trace
		}
		for i := range traces[0] {
			if i >= len(traces[1]) || traces[0][i] != traces[1][i] {
				fmt.Fprintf(os.Stderr, "DEBUG %s: traces differ at step %d: %v vs %v\n  before: %v\n", sg.name, i, traces[0][i:min(i+5, len(traces[0]))], traces[1][i:min(i+5, len(traces[1]))], traces[0][max(0, i-12):i])
				break
			}
		}
		fmt.Fprintf(os.Stderr, "DEBUG %s: trace lengths %d %d\n", sg.name, len(traces[0]), len(traces[1]))
		if sg.name == "chain" {
			fmt.Fprintf(os.Stderr, "DEBUG run0: %v\nDEBUG run1: %v\n", traces[0], traces[1])
		}
	}
	want := ""
	outcomes := map[string]int{}
	res := sched.ExploreSharded(bound, 200000, budget, r.Own, func() (func(), func(*sched.S) bool) {
		c2 := kase{Graph: sg.g, Target: sg.target}
		base, t := build(c2)
		rq := &schedReqs{reqs: *base, calls: map[V]int{}}
		if sg.errAt != "" {
			rq.errAt = parseMV(sg.errAt)
		}
		var list []V
		var err error
		body := func() { list, err = mvs.BuildList([]V{target}, rq) }
		check := func(s *sched.S) bool {
			r.Alive()
			fail := func(kind string) bool {
				var choices []int
				for _, p := range s.Points {
					choices = append(choices, p.Chosen)
				}
				r.Violation(fmt.Sprintf("schedule: %s [graph %s]", kind, sg.name), kase{Kind: "sched", Graph: sg.g, Target: sg.target, V: sg.name, W: fmt.Sprint(choices)},
					fmt.Sprintf("choice sequence %v (%d points)\nresult: %s err=%v", choices, len(s.Points), listString(list), err))
				return false
			}
			switch {
			case s.Deadlock:
				return fail("deadlock (a runner waits forever: lost wake-up)")
			case s.Horizon:
				return fail("step horizon exceeded (livelock)")
			case s.Panic != "":
				return fail("panic: " + s.Panic)
			}
			got := listString(list)
			if sg.errAt != "" {
				got = fmt.Sprint("error:", err != nil)
			} else if err != nil {
				return fail("BuildList fails: " + err.Error())
			}
			outcomes[got]++
			if want == "" {
				// first (default) schedule is the reference, cross-checked with the oracle
				want = got
				if sg.errAt == "" {
					w, _ := oracle(target, t, rq.g)
					var exp []string
					for p, v := range w {
						exp = append(exp, p+"@"+v)
					}
					sort.Strings(exp)
					if got != strings.Join(append([]string{target.String()}, exp...), " ") {
						return fail("result differs from the oracle: " + got)
					}
				}
			}
			if got != want {
				return fail("result depends on the schedule: " + got + " vs " + want)
			}
			for m, n := range rq.calls {
				if n != 1 {
					return fail(fmt.Sprintf("Required(%s) called %d times", m, n))
				}
			}
			return true
		}
		return body, check
	})
	if res.EngineError != "" {
		r.EngineError(res.EngineError)
		return
	}
	r.Trans(int(res.Points))
	r.Trace(res.Executions)
	r.Count("schedules", res.Executions)
	r.Count("schedules_bound_complete_"+sg.name, boolInt(res.Complete))
	r.Outcome("schedule:ok")
	if r.ShardK == 0 {
		r.Nontrivial()
		r.Sample(map[string]any{"graph": sg.name, "schedules_in_this_worker": res.Executions, "deviation_bound": bound, "complete": res.Complete, "max_choice_points": res.MaxPointsPerExec, "distinct_results": len(outcomes)})
		r.State("sched:" + sg.name)
	}
}

func boolInt(b bool) int {
	if b {
		return 1
	}
	return 0
}

func exploreWork(r *core.Run, c kase, n, bound, budget int) {
	res := sched.ExploreSharded(bound, 100000, budget, r.Own, func() (func(), func(*sched.S) bool) {
		var w par.Work[int]
		ran := map[int]int{}
		body := func() {
			w.Add(0)
			w.Do(n, func(i int) {
				sched.Yield("item")
				ran[i]++
				if i == 0 {
					w.Add(1)
					w.Add(2)
					w.Add(1) // duplicate add
				}
			})
		}
		check := func(s *sched.S) bool {
			r.Alive()
			fail := func(kind string) bool {
				var choices []int
				for _, p := range s.Points {
					choices = append(choices, p.Chosen)
				}
				r.Violation(fmt.Sprintf("par.Work(n=%d): %s", n, kind), kase{Kind: "work", V: fmt.Sprint(n), W: fmt.Sprint(choices)}, fmt.Sprintf("choice sequence %v; ran=%v", choices, ran))
				return false
			}
			switch {
			case s.Deadlock:
				return fail("deadlock (lost wake-up)")
			case s.Horizon:
				return fail("step horizon exceeded")
			case s.Panic != "":
				return fail("panic: " + s.Panic)
			}
			for i := 0; i < 3; i++ {
				if ran[i] != 1 {
					return fail(fmt.Sprintf("item %d ran %d times (Do returned early or ran an item twice)", i, ran[i]))
				}
			}
			return true
		}
		return body, check
	})
	if res.EngineError != "" {
		r.EngineError(res.EngineError)
		return
	}
	r.Trans(int(res.Points))
	r.Trace(res.Executions)
	r.Count("schedules", res.Executions)
	r.Outcome("schedule:ok")
	if r.ShardK == 0 {
		r.Nontrivial()
		r.Sample(map[string]any{"par.Work runners": n, "schedules_in_this_worker": res.Executions, "deviation_bound": bound, "complete": res.Complete})
	}
}
