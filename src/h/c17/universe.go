package c17

import (
	"context"
	"fmt"
	"io/fs"
	"path"
	"sort"
	"strings"
	"sync"
	"testing/fstest"

	"cuelang.org/go/internal/mod/semver"
	"cuelang.org/go/internal/verif/sched"
	"cuelang.org/go/mod/modfile"
	"cuelang.org/go/mod/modregistry"
	"cuelang.org/go/mod/module"
)

// A Universe is a main module plus the contents of a registry.
type Universe struct {
	Main Mod   `json:"main"`
	Reg  []Mod `json:"reg"`
}

// Mod is one module version: its module file and its packages.
type Mod struct {
	Path string `json:"path"` // with major version, e.g. x.test/a@v0
	V    string `json:"v"`    // "" for the main module
	Deps []Dep  `json:"deps,omitempty"`
	Pkgs []Pkg  `json:"pkgs,omitempty"`
}

type Dep struct {
	Path    string `json:"path"` // with major version
	V       string `json:"v"`
	Default bool   `json:"default,omitempty"`
}

// Pkg is a package directory; every file lists its imports.
type Pkg struct {
	Dir   string     `json:"dir"` // "" = module root
	Files [][]string `json:"files"`
}

// Arr is a rearrangement that must not change the outcome.
type Arr struct {
	RevFiles   bool `json:"rev_files,omitempty"`   // file names sort in the opposite order
	RevImports bool `json:"rev_imports,omitempty"` // imports listed in reverse inside each file
	Split      bool `json:"split,omitempty"`       // one file per import
	Merge      bool `json:"merge,omitempty"`       // all files of a package merged
	RevDeps    bool `json:"rev_deps,omitempty"`    // deps listed in reverse in module.cue
	RevList    bool `json:"rev_list,omitempty"`    // registry lists versions in reverse
}

func basePath(p string) string {
	if i := strings.IndexByte(p, '@'); i >= 0 {
		return p[:i]
	}
	return p
}

func majorOf(p string) string {
	if i := strings.IndexByte(p, '@'); i >= 0 {
		return p[i+1:]
	}
	return ""
}

func pkgName(modBase, dir string) string {
	p := modBase
	if dir != "" {
		p = modBase + "/" + dir
	}
	return path.Base(p)
}

func moduleCUE(m Mod, arr Arr) string {
	var b strings.Builder
	fmt.Fprintf(&b, "module: %q\nlanguage: version: \"v0.9.0\"\n", m.Path)
	// fields that tidy has no business with and must carry over
	b.WriteString(extraFields)
	deps := append([]Dep{}, m.Deps...)
	if arr.RevDeps {
		for i, j := 0, len(deps)-1; i < j; i, j = i+1, j-1 {
			deps[i], deps[j] = deps[j], deps[i]
		}
	}
	if len(deps) > 0 {
		b.WriteString("deps: {\n")
		for _, d := range deps {
			fmt.Fprintf(&b, "\t%q: {v: %q", d.Path, d.V)
			if d.Default {
				b.WriteString(", default: true")
			}
			b.WriteString("}\n")
		}
		b.WriteString("}\n")
	}
	return b.String()
}

const extraFields = "description: \"module of a generated universe\"\nsource: kind: \"self\"\ncustom: \"x.test/tool\": {k: 1}\n"

// moduleFS renders a module as a file system.
func moduleFS(m Mod, arr Arr) fstest.MapFS {
	fsys := fstest.MapFS{}
	fsys["cue.mod/module.cue"] = &fstest.MapFile{Data: []byte(moduleCUE(m, arr))}
	for _, p := range m.Pkgs {
		files := p.Files
		if arr.Merge {
			var all []string
			for _, f := range files {
				all = append(all, f...)
			}
			files = [][]string{all}
		}
		if arr.Split {
			var nf [][]string
			for _, f := range files {
				if len(f) <= 1 {
					nf = append(nf, f)
					continue
				}
				for _, imp := range f {
					nf = append(nf, []string{imp})
				}
			}
			files = nf
		}
		for i, imps := range files {
			name := fmt.Sprintf("f%d.cue", i)
			if arr.RevFiles {
				name = fmt.Sprintf("f%d.cue", 9-i)
			}
			var b strings.Builder
			fmt.Fprintf(&b, "package %s\n", pkgName(basePath(m.Path), p.Dir))
			imps = append([]string{}, imps...)
			if arr.RevImports {
				for i, j := 0, len(imps)-1; i < j; i, j = i+1, j-1 {
					imps[i], imps[j] = imps[j], imps[i]
				}
			}
			if len(imps) > 0 {
				b.WriteString("import (\n")
				for k, imp := range imps {
					fmt.Fprintf(&b, "\ti%d %q\n", k, imp)
				}
				b.WriteString(")\n")
			}
			fsys[path.Join(p.Dir, name)] = &fstest.MapFile{Data: []byte(b.String())}
		}
	}
	return fsys
}

// registry is the in-memory registry serving a universe.
type registry struct {
	u       *Universe
	arr     Arr
	mods    map[module.Version]*regMod
	byPath  map[string][]string // path (with or without major) -> versions, semver order
	mu      sync.Mutex
	calls   map[string]int
	yield   bool
	failMod string // ModFile of this module@version fails
}

type regMod struct {
	fs fs.FS
	mf *modfile.File
}

func newRegistry(u *Universe, arr Arr) (*registry, error) {
	r := &registry{u: u, arr: arr, mods: map[module.Version]*regMod{}, byPath: map[string][]string{}, calls: map[string]int{}}
	for i := range u.Reg {
		m := u.Reg[i]
		mv, err := module.NewVersion(m.Path, m.V)
		if err != nil {
			return nil, err
		}
		mf := &modfile.File{Module: m.Path, Language: &modfile.Language{Version: "v0.9.0"}}
		if len(m.Deps) > 0 {
			mf.Deps = map[string]*modfile.Dep{}
			for _, d := range m.Deps {
				mf.Deps[d.Path] = &modfile.Dep{Version: d.V, Default: d.Default}
			}
		}
		if err := mf.Init(); err != nil {
			return nil, err
		}
		r.mods[mv] = &regMod{fs: moduleFS(m, Arr{}), mf: mf}
		r.byPath[m.Path] = append(r.byPath[m.Path], m.V)
		r.byPath[basePath(m.Path)] = append(r.byPath[basePath(m.Path)], m.V)
	}
	for p, l := range r.byPath {
		sort.Slice(l, func(i, j int) bool { return semver.Compare(l[i], l[j]) < 0 })
		if arr.RevList {
			for i, j := 0, len(l)-1; i < j; i, j = i+1, j-1 {
				l[i], l[j] = l[j], l[i]
			}
		}
		r.byPath[p] = l
	}
	return r, nil
}

func (r *registry) count(k string) {
	if r.yield {
		sched.Yield("registry")
	}
	r.mu.Lock()
	r.calls[k]++
	r.mu.Unlock()
}

type notFound struct{ what string }

func (e *notFound) Error() string        { return e.what + ": module not found" }
func (e *notFound) Is(target error) bool { return target == modregistry.ErrNotFound }

func (r *registry) Fetch(ctx context.Context, m module.Version) (module.SourceLoc, error) {
	r.count("fetch " + m.String())
	rm, ok := r.mods[m]
	if !ok {
		return module.SourceLoc{}, &notFound{m.String()}
	}
	return module.SourceLoc{FS: rm.fs, Dir: "."}, nil
}

func (r *registry) ModFile(ctx context.Context, m module.Version) (*modfile.File, error) {
	r.count("modfile " + m.String())
	rm, ok := r.mods[m]
	if !ok || m.String() == r.failMod {
		return nil, &notFound{m.String()}
	}
	return rm.mf, nil
}

func (r *registry) ModuleVersions(ctx context.Context, mpath string) ([]string, error) {
	r.count("versions " + mpath)
	return append([]string{}, r.byPath[mpath]...), nil
}

// lookup returns the registry module with the given path and version.
func (u *Universe) lookup(p, v string) *Mod {
	for i := range u.Reg {
		if u.Reg[i].Path == p && u.Reg[i].V == v {
			return &u.Reg[i]
		}
	}
	return nil
}

func (m *Mod) pkg(dir string) *Pkg {
	for i := range m.Pkgs {
		if m.Pkgs[i].Dir == dir {
			return &m.Pkgs[i]
		}
	}
	return nil
}
