// Package c16: the module cache never serves a partial download, whatever
// crashes or races.
//
// The cache code (mod/modcache, mod/modzip.Unzip, internal/robustio,
// internal/par) is built from instrumented copies whose package os is the vos
// shim: the real code runs on a real (tmpfs) directory, every file-system
// effect is a step of a simulated process that can be killed before any step
// or in the middle of any write.
//
// (a) crash space (E3): every crash point and torn write of every scenario,
// every pair of crash points (crash, then crash during the recovery), every
// registry fault position, each followed by a clean run.
// (b) schedule space (E2): k simulated processes x m goroutines fetching the
// same / different versions under the controlled scheduler, every call of vos,
// every lock and every registry call being a scheduling point; and one
// process crashing at every effect while another one runs.
package c16

import (
	"context"
	"crypto/sha256"
	"encoding/json"
	"errors"
	"fmt"
	"io/fs"
	"os"
	"path/filepath"
	"regexp"
	"sort"
	"strings"
	"time"

	"cuelang.org/go/internal/verif/core"
	"cuelang.org/go/internal/verif/shim/vos"
	"cuelang.org/go/mod/modcache"
	"cuelang.org/go/mod/modregistry"
	"cuelang.org/go/mod/module"
)

func init() {
	core.RegisterChild("c16", childKill)
	core.Register(&core.Prop{
		ID: "C16",
		Rule: "E3+E2 bounded-exhaustive on the real cache code over a real directory: (a) for each scenario in {Fetch, ModFile, ModFile then Fetch, Fetch of two versions, Fetch with the zip already cached, Fetch over a stale partial extraction} every crash point (each file-system effect incl. every file of the extraction and every entry of a tree removal) and every torn write (0 and half of the buffer), followed by a clean run; every pair (crash at i, crash at j of the recovery run, both with torn variants); thorough: every triple for the Fetch scenarios; every registry fault (n-th call fails for every n, body breaks after 0/1/mid/len-1 bytes, digest error at end of body, error reported by Close only) alone and combined with every crash point of the retry; " +
			"(b) schedules with <=3 deviations (thorough 4) of 2 processes x 1 goroutine and 1 process x 2 goroutines (Fetch/Fetch, Fetch/ModFile), <=2 (thorough 3) of 2 processes on two versions, 2 x 2 and 3 x 1, and every crash point of one process combined with every schedule with <=2 (thorough 3) deviations of a second process. " +
			"Non-trivial = histories in which a crash left files behind that the next run had to deal with, or executions in which two threads contended for the version lock.",
		Assumptions: []string{
			"process-kill semantics: completed system calls persist, a killed process's locks are released, no power-loss (unsynced data) model",
			"simulated processes share one address space; their only shared state is the cache directory and the lock table, as for real processes",
			"registry faults are injected below modregistry.Client: an error from a call, an error from Read (broken connection, digest mismatch at end of body), a short body whose failure is reported by Close only (the documented contract of Module.GetZip)",
			"a write of n bytes may be torn at 0 or n/2 bytes",
		},
		Run: run, Replay: replay,
		RequireOutcomes: []string{"history:ok", "crash:left-debris", "fault:retry-ok", "schedule:ok", "conformance:same-directory"},
		BudgetQuick:     240, BudgetThorough: 1500,
		StallSeconds: 300,
	})
}

// op is one API call of a simulated process.
type op struct {
	Kind string `json:"kind"` // fetch | modfile
	V    string `json:"v"`
}

// step is one run of a simulated process in a history.
type step struct {
	Ops     []op  `json:"ops"`
	CrashAt int   `json:"crash_at,omitempty"`
	Torn    int   `json:"torn,omitempty"`
	Fault   fault `json:"fault,omitempty"`
}

type kase struct {
	Kind    string `json:"kind"` // history | sched
	Name    string `json:"name"`
	Prepare []op   `json:"prepare,omitempty"` // clean runs that set up the initial cache state
	Debris  bool   `json:"debris,omitempty"`  // start from a stale partial extraction
	Steps   []step `json:"steps,omitempty"`
	// sched
	Procs   [][]op `json:"procs,omitempty"` // per process, one op per goroutine
	CrashP0 int    `json:"crash_p0,omitempty"`
	Choices string `json:"choices,omitempty"`
}

// HardKill (conformance check only) makes the crash a real process exit.
var hardKill bool

type procResult struct {
	crashed  bool
	effects  int
	log      []string
	errs     []string // per op: "" | error text
	problems []string // content / invariant problems observed
	zipGets  map[string]int
	writes   map[int]int
}

// runProc runs one simulated process to completion or to its crash.
func runProc(w *world, dir string, st step) (res procResult) {
	p := &vos.Proc{ID: 1, CrashAt: st.CrashAt, Torn: st.Torn, HardKill: hardKill}
	p.Observer = func(p *vos.Proc, op, path string) {
		if msg := stateInvariant(w, dir); msg != "" {
			res.problems = append(res.problems, fmt.Sprintf("after effect %d (%s %s): %s", p.Effects, op, path, msg))
		}
	}
	reg := newFaulty(w, st.Fault)
	vos.SetCurrent(p)
	defer func() {
		vos.SetCurrent(nil)
		res.effects, res.log, res.zipGets, res.writes = p.Effects, p.Log, reg.zipGets, p.WriteSizes
		if r := recover(); r != nil {
			if _, ok := r.(vos.Crash); !ok {
				panic(r)
			}
			res.crashed = true
		}
	}()
	cache, err := modcache.New(modregistry.NewClient(reg), dir)
	if err != nil {
		res.problems = append(res.problems, "modcache.New: "+err.Error())
		return
	}
	for _, o := range st.Ops {
		res.errs = append(res.errs, doOp(w, cache, o, &res))
	}
	return
}

func doOp(w *world, cache *modcache.Cache, o op, res *procResult) string {
	mv := module.MustNewVersion(modPath, o.V)
	switch o.Kind {
	case "fetch":
		loc, err := cache.Fetch(context.Background(), mv)
		if err != nil {
			return err.Error()
		}
		sub, err := fs.Sub(loc.FS, loc.Dir)
		if err != nil {
			return err.Error()
		}
		if d := treeDiff(sub, w.files[o.V]); d != "" {
			res.problems = append(res.problems, fmt.Sprintf("Fetch(%s) returned a directory that is not the module's content: %s", o.V, d))
		}
	case "modfile":
		mf, err := cache.ModFile(context.Background(), mv)
		if err != nil {
			return err.Error()
		}
		if mf.QualifiedModule() != modPath {
			res.problems = append(res.problems, "ModFile returned "+mf.QualifiedModule())
		}
	}
	return ""
}

var scenarios = []struct {
	name    string
	prepare []op
	debris  bool
	ops     []op
	pairs   bool // crash pairs already in the quick tier
}{
	{name: "fetch", ops: []op{{"fetch", "v0.1.0"}}, pairs: true},
	{name: "modfile", ops: []op{{"modfile", "v0.1.0"}}},
	{name: "modfile-then-fetch", ops: []op{{"modfile", "v0.1.0"}, {"fetch", "v0.1.0"}}, pairs: true},
	{name: "fetch-two-versions", ops: []op{{"fetch", "v0.1.0"}, {"fetch", "v0.2.0"}}},
	{name: "fetch-deeper-tree", ops: []op{{"fetch", "v0.2.0"}}},
	{name: "refetch-after-complete", prepare: []op{{"fetch", "v0.1.0"}}, ops: []op{{"fetch", "v0.1.0"}, {"modfile", "v0.1.0"}}},
	{name: "fetch-over-stale-partial", debris: true, ops: []op{{"fetch", "v0.1.0"}}, pairs: true},
}

func run(r *core.Run) {
	defer dropAll()
	// schedule phase first (no free-running goroutines exist yet)
	runSchedules(r)
	runHistories(r)
	runConformance(r)
}

func replay(r *core.Run, raw json.RawMessage) {
	defer dropAll()
	var c kase
	if err := json.Unmarshal(raw, &c); err != nil {
		r.EngineError(err.Error())
		return
	}
	switch c.Kind {
	case "history":
		r.Guard(c, func() { checkHistory(r, c, false) })
	case "sched":
		r.Guard(c, func() { replaySchedule(r, c) })
	}
}

func hkey(kind string, c kase) string {
	var parts []string
	for _, st := range c.Steps {
		s := ""
		if st.Fault.Kind != "" {
			s += fmt.Sprintf("fault(%s,%d,%d) ", st.Fault.Kind, st.Fault.Call, st.Fault.Bytes)
		}
		if st.CrashAt > 0 {
			s += fmt.Sprintf("crash@%d", st.CrashAt)
			if st.Torn > 0 {
				s += fmt.Sprintf("/torn%d", st.Torn)
			}
		} else {
			s += "clean"
		}
		parts = append(parts, strings.TrimSpace(s))
	}
	return fmt.Sprintf("%s [%s: %s]", kind, c.Name, strings.Join(parts, " -> "))
}

// prepareDir builds the initial cache state of a history.
func prepareDir(w *world, c kase) (string, string) {
	dir := freshDir()
	if len(c.Prepare) > 0 {
		res := runProc(w, dir, step{Ops: c.Prepare})
		if res.crashed || len(res.problems) > 0 || strings.Join(res.errs, "") != "" {
			return dir, fmt.Sprintf("preparation failed: %v %v", res.errs, res.problems)
		}
	}
	if c.Debris {
		// a stale partial extraction: crash in the middle of unzipping
		probe := runProc(w, freshDirKeep(dir+"-probe"), step{Ops: []op{{"fetch", "v0.1.0"}}})
		dropDir(dir + "-probe")
		at := 0
		for i, l := range probe.log {
			if strings.HasPrefix(l, "create ") && strings.Contains(l, "extract") && strings.HasSuffix(l, "a.cue") {
				at = i + 2 // just after a.cue was created: inside its first write
			}
		}
		if at == 0 {
			return dir, "cannot locate the extraction in the effect log"
		}
		res := runProc(w, dir, step{Ops: []op{{"fetch", "v0.1.0"}}, CrashAt: at})
		if !res.crashed {
			return dir, "preparation did not crash"
		}
	}
	return dir, ""
}

func freshDirKeep(d string) string {
	modcache.RemoveAll(d)
	return d
}

// checkHistory runs the steps of c in order on one cache directory and checks
// everything the property demands.
func checkHistory(r *core.Run, c kase, quiet bool) (last procResult, ok bool) {
	w := getWorld()
	dir, perr := prepareDir(w, c)
	defer dropDir(dir)
	if perr != "" {
		r.EngineError(perr + " [" + c.Name + "]")
		return last, false
	}
	viol := func(kind, detail string, res procResult) {
		if quiet {
			return // a dry run that only measures; the owner of the history reports
		}
		r.Violation(hkey(kind, c), c, detail+"\n\neffect log of the step:\n"+strings.Join(res.log, "\n"))
	}
	debris := false
	for i, st := range c.Steps {
		res := runProc(w, dir, st)
		if !quiet {
			r.Trans(res.effects)
		}
		last = res
		if len(res.problems) > 0 {
			viol(classify(res.problems[0]), strings.Join(res.problems, "\n"), res)
			return last, false
		}
		for v, n := range res.zipGets {
			if n > 1 {
				viol("more than one download of a version in one process", fmt.Sprintf("%s downloaded %d times in step %d", v, n, i), res)
				return last, false
			}
		}
		// whatever happened, nothing incomplete may be visible
		if msg := stateInvariant(w, dir); msg != "" {
			viol(classify(msg), fmt.Sprintf("after step %d: %s", i, msg), res)
			return last, false
		}
		for _, v := range []string{"v0.1.0", "v0.2.0"} {
			if msg := probe(w, dir, v); msg != "" {
				viol("FetchFromCache hands out an incomplete directory", fmt.Sprintf("after step %d: %s", i, msg), res)
				return last, false
			}
		}
		if res.crashed {
			if leftovers(dir) {
				debris = true
			}
			continue
		}
		if st.CrashAt > 0 {
			// the run finished before reaching the crash point: the caller stops enumerating
			return last, true
		}
		// a run without a crash: every call must succeed unless a fault was injected
		for k, e := range res.errs {
			if e == "" {
				continue
			}
			if st.Fault.Kind != "" {
				if !quiet {
					r.Outcome("fault:error-reported")
				}
				continue
			}
			viol("a clean run fails", fmt.Sprintf("step %d, call %d (%s %s): %s", i, k, st.Ops[k].Kind, st.Ops[k].V, e), res)
			return last, false
		}
	}
	if quiet {
		return last, true
	}
	if debris {
		r.Outcome("crash:left-debris")
		r.Nontrivial()
	}
	r.Outcome("history:ok")
	return last, true
}

func classify(msg string) string {
	switch {
	case strings.Contains(msg, "available (no .partial marker) while incomplete"):
		return "extracted directory available while incomplete"
	case strings.Contains(msg, "cached zip"):
		return "incomplete zip at its final name"
	case strings.Contains(msg, "cached module file"):
		return "incomplete module file at its final name"
	case strings.Contains(msg, "not the module's content"):
		return "Fetch returns wrong content"
	}
	return "problem"
}

// leftovers reports whether the directory holds anything besides complete
// artefacts and lock files.
func leftovers(dir string) bool {
	for _, v := range []string{"v0.1.0", "v0.2.0"} {
		extract, partial, _, _, _ := paths(dir, v)
		if exists(partial) || (exists(extract) && exists(partial)) {
			return true
		}
	}
	found := false
	fs.WalkDir(os.DirFS(dir), ".", func(p string, d fs.DirEntry, err error) error {
		if err == nil && strings.HasSuffix(p, ".tmp") {
			found = true
		}
		return nil
	})
	return found
}

// measure runs the given steps quietly (every worker does, so that all
// workers enumerate the same space) and returns the result of the last one.
func measure(r *core.Run, base kase, steps []step) (procResult, bool) {
	c := base
	c.Steps = steps
	return checkHistory(r, c, true)
}

func variants(res procResult, i int) []int {
	if sz, isWrite := res.writes[i]; isWrite && sz > 1 {
		return []int{0, sz / 2}
	}
	return []int{0}
}

func runHistories(r *core.Run) {
	final := func(ops []op) step { return step{Ops: ops} }
	for _, sc := range scenarios {
		base := kase{Kind: "history", Name: sc.name, Prepare: sc.prepare, Debris: sc.debris}
		r.Section(fmt.Sprintf("scenario %s: every crash point and torn write, then a clean run", sc.name))
		if r.Mine() {
			c := base
			c.Steps = []step{final(sc.ops)}
			r.Guard(c, func() { checkHistory(r, c, false) })
		}
		clean, ok := measure(r, base, []step{final(sc.ops)})
		if !ok || clean.crashed {
			continue
		}
		n := clean.effects
		if r.ShardK == 0 {
			r.Count("effects_"+sc.name, n)
		}
		for i := 1; i <= n; i++ {
			for _, torn := range variants(clean, i) {
				if !r.Mine() {
					continue
				}
				c := base
				c.Steps = []step{{Ops: sc.ops, CrashAt: i, Torn: torn}, final(sc.ops)}
				r.Guard(c, func() { checkHistory(r, c, false) })
			}
		}
		_ = sc.pairs
		r.Section(fmt.Sprintf("scenario %s: every pair of crash points (crash at i, crash at j of the recovery run), then a clean run", sc.name))
		for i := 1; i <= n; i++ {
			for _, torn := range variants(clean, i) {
				first := step{Ops: sc.ops, CrashAt: i, Torn: torn}
				rec, ok := measure(r, base, []step{first, final(sc.ops)})
				if !ok {
					continue // reported by the owner of the single-crash history
				}
				for j := 1; j <= rec.effects; j++ {
					for _, torn2 := range variants(rec, j) {
						if !r.Mine() {
							continue
						}
						c := base
						c.Steps = []step{first, {Ops: sc.ops, CrashAt: j, Torn: torn2}, final(sc.ops)}
						r.Guard(c, func() { checkHistory(r, c, false) })
					}
				}
				if r.Expired() {
					return
				}
			}
		}
		if !r.Thorough() || !sc.pairs {
			continue
		}
		r.Section(fmt.Sprintf("scenario %s: every triple of crash points, then a clean run", sc.name))
		for i := 1; i <= n; i++ {
			first := step{Ops: sc.ops, CrashAt: i}
			rec, ok := measure(r, base, []step{first, final(sc.ops)})
			if !ok {
				continue
			}
			for j := 1; j <= rec.effects; j++ {
				second := step{Ops: sc.ops, CrashAt: j}
				rec2, ok := measure(r, base, []step{first, second, final(sc.ops)})
				if !ok {
					continue
				}
				for k := 1; k <= rec2.effects; k++ {
					if !r.Mine() {
						continue
					}
					c := base
					c.Steps = []step{first, second, {Ops: sc.ops, CrashAt: k}, final(sc.ops)}
					r.Guard(c, func() { checkHistory(r, c, false) })
				}
				if r.Expired() {
					return
				}
			}
		}
	}
	// registry faults
	r.Section("registry faults: n-th call fails (every n), body breaks after 0/1/mid/len-1 bytes, digest error at the end, error at Close only; then a clean run; and combined with every crash point of the faulty run")
	zl := len(getWorld().zipData["v0.1.0"])
	var faults []fault
	for n := 1; n <= 4; n++ {
		faults = append(faults, fault{Kind: "call", Call: n})
	}
	for _, b := range []int{0, 1, zl / 2, zl - 1} {
		faults = append(faults, fault{Kind: "body", Bytes: b})
	}
	faults = append(faults, fault{Kind: "eof"}, fault{Kind: "close", Bytes: zl / 2}, fault{Kind: "close", Bytes: zl})
	for _, sc := range scenarios[:3] {
		for _, f := range faults {
			base := kase{Kind: "history", Name: sc.name + "+fault"}
			if r.Mine() {
				c := base
				c.Steps = []step{{Ops: sc.ops, Fault: f}, final(sc.ops)}
				r.Guard(c, func() {
					if _, ok := checkHistory(r, c, false); ok {
						r.Outcome("fault:retry-ok")
					}
				})
			}
			faulty, ok := measure(r, base, []step{{Ops: sc.ops, Fault: f}})
			if !ok {
				continue
			}
			for i := 1; i <= faulty.effects; i++ {
				for _, torn := range variants(faulty, i) {
					if !r.Mine() {
						continue
					}
					c := base
					c.Steps = []step{{Ops: sc.ops, Fault: f, CrashAt: i, Torn: torn}, final(sc.ops)}
					r.Guard(c, func() { checkHistory(r, c, false) })
				}
			}
		}
	}
}

var _ = errors.Is

// ---- conformance of the simulated kill with a real one ----

type killReq struct {
	Dir  string `json:"dir"`
	Step step   `json:"step"`
}

// childKill runs in a helper process: it performs the step with a real
// process exit at the crash point. If the step completes it reports so.
func childKill(in []byte) []byte {
	var q killReq
	if err := json.Unmarshal(in, &q); err != nil {
		return []byte("bad request")
	}
	hardKill = true
	res := runProc(getWorld(), q.Dir, q.Step)
	return []byte(fmt.Sprintf("completed effects=%d", res.effects))
}

// snapshot lists the directory: path, kind and content, with the random part
// of temporary file names normalised.
func snapshot(dir string) string {
	var l []string
	filepath.WalkDir(dir, func(p string, d fs.DirEntry, err error) error {
		if err != nil {
			return nil
		}
		rel, _ := filepath.Rel(dir, p)
		rel = tmpName.ReplaceAllString(rel, "N.tmp")
		if d.IsDir() {
			l = append(l, rel+"/")
			return nil
		}
		b, _ := os.ReadFile(p)
		l = append(l, fmt.Sprintf("%s %d bytes %x", rel, len(b), sha256.Sum256(b)))
		return nil
	})
	sort.Strings(l)
	return strings.Join(l, "\n")
}

var tmpName = regexp.MustCompile(`[0-9]+\.tmp`)

func runConformance(r *core.Run) {
	r.Section("crash-model conformance: a real process killed (os.Exit at the crash point, no unwinding) at every crash point and torn write of the scenarios fetch and modfile-then-fetch leaves the same directory as the simulated kill")
	w := getWorld()
	ch := core.NewChild("c16", 60*time.Second)
	defer ch.Close()
	for _, sc := range scenarios[:3] {
		base := kase{Kind: "history", Name: sc.name}
		clean, ok := measure(r, base, []step{{Ops: sc.ops}})
		if !ok {
			continue
		}
		for i := 1; i <= clean.effects; i++ {
			for _, torn := range variants(clean, i) {
				if !r.Mine() {
					continue
				}
				st := step{Ops: sc.ops, CrashAt: i, Torn: torn}
				c := kase{Kind: "conformance", Name: sc.name, Steps: []step{st}}
				r.Guard(c, func() {
					simDir, realDir := freshDir(), freshDir()
					defer dropDir(simDir)
					defer dropDir(realDir)
					sim := runProc(w, simDir, st)
					b, _ := json.Marshal(killReq{Dir: realDir, Step: st})
					out, died, se := ch.Call(b)
					r.Trans(sim.effects)
					if !died || !sim.crashed {
						r.EngineError(fmt.Sprintf("conformance: simulated crashed=%v, real died=%v (%s %s) at effect %d of %s", sim.crashed, died, out, se, i, sc.name))
						return
					}
					if a, b := snapshot(simDir), snapshot(realDir); a != b {
						r.Violation(hkey("conformance: the simulated kill leaves another directory than a real kill", c), c, "simulated:\n"+a+"\n\nreal process:\n"+b)
						return
					}
					r.Outcome("conformance:same-directory")
					r.Trace(1)
				})
			}
		}
	}
}
