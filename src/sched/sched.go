// Package sched is the controlled cooperative scheduler (engine E2).
//
// Exactly one managed thread runs at a time. Every operation of the shim
// packages (vsync, vatomic, vrand, and the channel/map helpers here) is a
// scheduling point: the thread announces the operation, and the scheduler
// chooses which enabled thread continues. Blocking is modelled, not executed:
// a thread whose pending operation is not enabled is simply not chosen.
// "No enabled thread while some thread is unfinished" is a deadlock.
//
// Exploration is a stateless depth-first search over choice sequences with
// iterative deviation bounding (see explore.go). The default schedule runs the
// current thread while it can continue and otherwise the lowest-numbered
// enabled thread, and answers every value choice with 0. A deviation is any
// departure from that: a preemption, another thread than the lowest-numbered
// one at a blocking point, or a non-default value choice (rand.IntN answer,
// Cond.Signal waiter, map iteration rotation).
package sched

import (
	"fmt"
	"os"
	"reflect"
	"runtime"
	"runtime/debug"
	"sort"
	"strconv"
	"time"
)

// stackAt (VERIF_SCHED_STACKAT=n, debugging aid) prints the stack of the
// thread that reaches choice point n.
var stackAt = func() int {
	n, err := strconv.Atoi(os.Getenv("VERIF_SCHED_STACKAT"))
	if err != nil {
		return -1
	}
	return n
}()

// Op describes a pending operation of a thread.
type Op struct {
	Kind    string
	Obj     any
	Enabled func() bool // nil = always enabled
}

type thread struct {
	id      int
	wake    chan struct{}
	pending *Op
	done    bool
	// for Cond
	signalled bool
	// channel polling
	seenEpoch int64
	// tag is harness data attached to the thread (inherited by the threads it
	// spawns), e.g. the simulated process it belongs to.
	tag any
}

// Point is one recorded choice point.
type Point struct {
	Kind           string // "thread" or a value-choice kind
	N              int    // number of alternatives
	Chosen         int
	RunningEnabled bool   // for thread points: the running thread could have continued
	Desc           string // e.g. "t1:lock" (for divergence detection and reports)
}

// S is the scheduler state of one execution.
type S struct {
	threads  []*thread
	running  *thread
	prefix   []int
	Expect   []string // expected Desc of the prefix points (divergence detection)
	Points   []Point
	Steps    int
	MaxSteps int

	// the operation granted last (CoalesceReads)
	lastT    *thread
	lastKind string
	lastObj  any

	Deadlock  bool
	Horizon   bool
	Diverged  string
	Panic     string
	chanEpoch int64
	closed    map[uintptr]bool
	finished  chan struct{}
	nextObj   int
	objIDs    map[any]int
	// pinned keeps every object whose address is used as an identity (closed
	// channels, operation objects) reachable until the execution ends, so that
	// the garbage collector cannot hand the same address to another object.
	pinned    []any
	Trace     []string
	KeepTrace bool
}

var cur *S

// Cur returns the active scheduler, or nil when code runs outside an
// exploration (shims then fall through to the real primitives).
func Cur() *S { return cur }

// Run executes body under the scheduler following the choice prefix; beyond the
// prefix the default choice (index 0) is taken.
func Run(prefix []int, maxSteps int, keepTrace bool, body func()) *S {
	return RunExpect(prefix, nil, maxSteps, keepTrace, body)
}

// RunExpect is Run with the expected descriptions of the prefix points.
func RunExpect(prefix []int, expect []string, maxSteps int, keepTrace bool, body func()) *S {
	s := &S{prefix: prefix, Expect: expect, MaxSteps: maxSteps, closed: map[uintptr]bool{}, finished: make(chan struct{}), objIDs: map[any]int{}, KeepTrace: keepTrace}
	if s.MaxSteps == 0 {
		s.MaxSteps = 100000
	}
	settle()
	cur = s
	t0 := s.newThread()
	s.running = t0
	go s.threadMain(t0, body)
	t0.wake <- struct{}{}
	<-s.finished
	cur = nil
	return s
}

func (s *S) newThread() *thread {
	t := &thread{id: len(s.threads), wake: make(chan struct{}, 1)}
	s.threads = append(s.threads, t)
	return t
}

var settled bool

// settle waits (once, before the first scheduled execution of the process)
// until goroutines started earlier in pass-through mode have gone: a
// straggler calling a shim while a scheduler is active would be taken for
// the running thread.
func settle() {
	if settled {
		return
	}
	settled = true
	prev := runtime.NumGoroutine()
	for i := 0; i < 100; i++ {
		time.Sleep(5 * time.Millisecond)
		n := runtime.NumGoroutine()
		if n == prev && i >= 3 {
			return
		}
		prev = n
	}
}

type abortSentinel struct{}

func (s *S) threadMain(t *thread, body func()) {
	<-t.wake
	defer func() {
		if e := recover(); e != nil {
			if _, ok := e.(abortSentinel); !ok {
				// a panic in the code under test: record and stop everything
				s.Panic = fmt.Sprintf("panic in thread %d: %v", t.id, e)
				s.abort()
				return
			}
			return
		}
		t.done = true
		s.schedule(t, true)
	}()
	body()
}

// Go spawns a managed thread (rewritten `go` statements).
func Go(fn func()) {
	s := cur
	if s == nil {
		go fn()
		return
	}
	me := s.running
	s.point(me, &Op{Kind: "spawn"})
	t := s.newThread()
	t.pending = &Op{Kind: "start"}
	t.tag = me.tag
	go s.threadMain(t, fn)
}

// Tag returns the tag of the running thread.
func (s *S) Tag() any {
	if s.running == nil {
		return nil
	}
	return s.running.tag
}

// SetTag tags the running thread; threads spawned later inherit the tag.
func (s *S) SetTag(v any) { s.running.tag = v }

func (s *S) objID(o any) int {
	if o == nil {
		return 0
	}
	k := o
	if rv := reflect.ValueOf(o); rv.Kind() == reflect.Chan || rv.Kind() == reflect.Ptr || rv.Kind() == reflect.Map {
		k = rv.Pointer()
	}
	if id, ok := s.objIDs[k]; ok {
		return id
	}
	s.pinned = append(s.pinned, o)
	s.nextObj++
	s.objIDs[k] = s.nextObj
	return s.nextObj
}

// Point announces an operation of the running thread and returns when the
// scheduler lets it proceed (the operation is then enabled).
func (s *S) Point(op *Op) {
	s.point(s.running, op)
}

func (s *S) point(t *thread, op *Op) {
	if CoalesceReads && op.Kind == "rlock" && s.lastT == t && s.lastKind == "rlock" && s.lastObj == op.Obj && (op.Enabled == nil || op.Enabled()) {
		return
	}
	t.pending = op
	s.schedule(t, false)
	t.pending = nil
	s.lastT, s.lastKind, s.lastObj = t, op.Kind, op.Obj
}

// CoalesceReads, when set by a harness, makes a read-lock acquisition no
// scheduling point when the last operation the scheduler granted was a
// read-lock acquisition of the same lock by the same thread: a run of
// read-locked sections of one thread on one lock is one block, however many
// sections it has. (Needed where the number of such sections depends on
// nondeterminism the harness does not own - the evaluator's field sorter
// compares labels through the read-locked label index and its number of
// comparisons depends on Go's map iteration order. Every explored
// interleaving is still a real one; interleavings that put another thread's
// operation between two such sections are not explored.)
var CoalesceReads bool

func enabled(t *thread) bool {
	if t.done {
		return false
	}
	if t.pending == nil || t.pending.Enabled == nil {
		return true
	}
	return t.pending.Enabled()
}

func (s *S) abort() {
	select {
	case <-s.finished:
	default:
		close(s.finished)
	}
}

// schedule picks the next thread. from is the calling thread (parked unless
// chosen again); exiting is true when from has just finished.
func (s *S) schedule(from *thread, exiting bool) {
	s.lastT = nil
	s.Steps++
	if s.Steps > s.MaxSteps {
		s.Horizon = true
		s.abort()
		if !exiting {
			<-from.wake // park forever (leaked; the execution is over)
			panic(abortSentinel{})
		}
		return
	}
	// canonical order: the running thread first if still enabled, then ascending ids
	var cand []*thread
	fromEnabled := !exiting && enabled(from)
	if fromEnabled {
		cand = append(cand, from)
	}
	for _, t := range s.threads {
		if t != from && enabled(t) {
			cand = append(cand, t)
		}
	}
	if len(cand) == 0 {
		all := true
		for _, t := range s.threads {
			if !t.done {
				all = false
			}
		}
		if !all {
			s.Deadlock = true
		}
		s.abort()
		if !exiting {
			<-from.wake
			panic(abortSentinel{})
		}
		return
	}
	choice := 0
	if len(cand) > 1 {
		idx := len(s.Points)
		if idx < len(s.prefix) {
			choice = s.prefix[idx]
			if choice >= len(cand) {
				s.Diverged = fmt.Sprintf("choice %d out of range (%d enabled) at point %d", choice, len(cand), idx)
				choice = 0
			}
		}
		desc := ""
		for _, t := range cand {
			k := "start"
			if t.pending != nil {
				k = fmt.Sprintf("%s#%d", t.pending.Kind, s.objID(t.pending.Obj))
			}
			desc += fmt.Sprintf("t%d:%s ", t.id, k)
		}
		if stackAt >= 0 && idx == stackAt {
			fmt.Fprintf(os.Stderr, "sched: point %d [%s]\n%s\n", idx, desc, debug.Stack())
		}
		if idx < len(s.Expect) && s.Expect[idx] != desc && s.Diverged == "" {
			s.Diverged = fmt.Sprintf("point %d: expected [%s] got [%s]", idx, s.Expect[idx], desc)
		}
		s.Points = append(s.Points, Point{Kind: "thread", N: len(cand), Chosen: choice, RunningEnabled: fromEnabled, Desc: desc})
	}
	next := cand[choice]
	if s.KeepTrace {
		k := "start"
		if next.pending != nil {
			k = next.pending.Kind
		}
		s.Trace = append(s.Trace, fmt.Sprintf("t%d:%s", next.id, k))
	}
	if next == from {
		return
	}
	s.running = next
	next.wake <- struct{}{}
	if exiting {
		return
	}
	<-from.wake
	select {
	case <-s.finished:
		panic(abortSentinel{})
	default:
	}
}

// Choose is a value choice point with n alternatives (0 is the default).
func (s *S) Choose(kind string, n int) int {
	if n <= 1 {
		return 0
	}
	s.lastT = nil
	idx := len(s.Points)
	choice := 0
	if idx < len(s.prefix) {
		choice = s.prefix[idx]
		if choice >= n {
			s.Diverged = fmt.Sprintf("value choice %d out of range (%d) at point %d", choice, n, idx)
			choice = 0
		}
	}
	s.Points = append(s.Points, Point{Kind: kind, N: n, Chosen: choice, Desc: fmt.Sprintf("%s/%d", kind, n)})
	return choice
}

// ---- channel helpers (rewritten channel operations) ----

func chanPtr(c any) uintptr { return reflect.ValueOf(c).Pointer() }

// Recv is `<-c`.
func Recv[T any](c <-chan T) T {
	v, _ := Recv2(c)
	return v
}

// Recv2 is `v, ok := <-c`.
func Recv2[T any](c <-chan T) (T, bool) {
	s := cur
	if s == nil {
		v, ok := <-c
		return v, ok
	}
	p := chanPtr(c)
	s.Point(&Op{Kind: "recv", Obj: c, Enabled: func() bool { return len(c) > 0 || s.closed[p] }})
	v, ok := <-c // cannot block: buffered data present or closed
	s.chanEpoch++
	return v, ok
}

// Send is `c <- v`. Only buffered channels are supported under the scheduler
// (the instrumented code uses a capacity-1 channel as a state holder).
func Send[T any](c chan<- T, v T) {
	s := cur
	if s == nil {
		c <- v
		return
	}
	if cap(c) == 0 {
		panic("sched: send on unbuffered channel is not modelled")
	}
	s.Point(&Op{Kind: "send", Obj: c, Enabled: func() bool { return len(c) < cap(c) }})
	c <- v
	s.chanEpoch++
}

// Close is `close(c)`.
func Close[T any](c chan T) {
	s := cur
	if s == nil {
		close(c)
		return
	}
	s.Point(&Op{Kind: "close", Obj: c})
	s.closed[chanPtr(c)] = true
	s.pinned = append(s.pinned, c)
	close(c)
	s.chanEpoch++
}

// MapSeq iterates over a snapshot of m in an order owned by the scheduler:
// keys sorted by their printed form, rotated by a value choice.
func MapSeq[M ~map[K]V, K comparable, V any](m M) func(yield func(K, V) bool) {
	return func(yield func(K, V) bool) {
		keys := make([]K, 0, len(m))
		for k := range m {
			keys = append(keys, k)
		}
		sort.Slice(keys, func(i, j int) bool { return fmt.Sprint(keys[i]) < fmt.Sprint(keys[j]) })
		rot := 0
		if s := cur; s != nil && len(keys) > 1 && len(keys) <= 4 {
			rot = s.Choose("maporder", len(keys))
		}
		for i := range keys {
			k := keys[(i+rot)%len(keys)]
			v, ok := m[k]
			if !ok {
				continue
			}
			if !yield(k, v) {
				return
			}
		}
	}
}

// Yield is an explicit scheduling point (used by harness callbacks to model
// latency, e.g. inside a Required callback).
func Yield(kind string) {
	if s := cur; s != nil {
		s.Point(&Op{Kind: kind})
	}
}
