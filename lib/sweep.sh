#!/bin/bash
# sweep.sh <tier> <ID>...: run the checks one after the other, keep their output under .work/<tier>/
TIER="$1"; shift
mkdir -p /verif/.work/$TIER
for id in "$@"; do
  s=$(date +%s)
  (cd /verif && ./check $id --tier $TIER) > /verif/.work/$TIER/$id.log 2>&1; rc=$?
  echo "$id rc=$rc wall=$(( $(date +%s) - s ))s $(grep -c '^VIOLATION' /verif/.work/$TIER/$id.log) violations" >> /verif/.work/$TIER/SUMMARY
done
