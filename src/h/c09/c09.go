// Package c09: the parser is total and literals round-trip through quoting.
//
// Bounded-exhaustive enumeration (E1) of
//
//	(a) token soups up to length L over a token alphabet, plus every prefix and
//	    every single-byte deletion of corpus seed files: no panic, positions sane;
//	(b) every string/byte string up to length L over a hostile alphabet x every
//	    quoting Form: Unquote(Quote(s)) == s, scanner sees one STRING token,
//	    parser sees one BasicLit, evaluation gives s;
//	(c) every literal-candidate spelling up to length L: scanner, parser and
//	    literal package agree on validity.
package c09

import (
	"encoding/json"
	"fmt"
	"math/big"
	"regexp"
	"strings"
	"unicode/utf8"

	"cuelang.org/go/cue/ast"
	"cuelang.org/go/cue/cuecontext"
	"cuelang.org/go/cue/errors"
	"cuelang.org/go/cue/literal"
	"cuelang.org/go/cue/parser"
	"cuelang.org/go/cue/scanner"
	"cuelang.org/go/cue/token"
	"cuelang.org/go/internal/verif/core"
	"cuelang.org/go/internal/verif/gen"
)

func init() {
	core.Register(&core.Prop{
		ID: "C09",
		Rule: "E1 bounded-exhaustive: (a) all token strings <=L over a 46-token alphabet, joined with '' and ' ', parsed with and without comments, + all prefixes and single-byte deletions of 40 corpus seeds; " +
			"(b) all strings <=L over 15 hostile runes (+3 invalid-UTF-8 bytes for bytes forms) x 26 quoting forms; (c) all number/string/identifier candidate spellings <=L. " +
			"Non-trivial = soups that parse without error to a non-empty file, strings whose quoted form contains an escape or a # delimiter, spellings accepted by at least one of the three parties.",
		Assumptions: []string{
			"token/rune alphabets and length bounds as listed in coverage.sections",
			"String forms are checked for valid UTF-8 only (documented as lossy otherwise)",
		},
		Run:             run,
		Replay:          replay,
		RequireOutcomes: []string{"soup:ok", "soup:err", "quote:roundtrip", "spell:num:valid", "spell:num:invalid", "spell:str:valid", "spell:str:invalid", "spell:id:valid", "spell:id:invalid"},
		BudgetQuick:     150,
		BudgetThorough:  1200,
	})
}

type kase struct {
	Kind string `json:"kind"` // soup | quote | spell
	Src  string `json:"src,omitempty"`
	Hex  string `json:"hex,omitempty"` // src as Go-quoted string for readability
	Form int    `json:"form,omitempty"`
	Cat  string `json:"cat,omitempty"` // spell category: num|str|id
}

func mk(kind, src string) kase { return kase{Kind: kind, Src: src, Hex: fmt.Sprintf("%q", src)} }

var soupTokens = []string{
	"a", "#D", "_h", "1", "1.5", `"s"`, `"\(a)"`, "\"\"\"\n a\n \"\"\"", "'b'", ":", ",", "{", "}", "[", "]", "(", ")",
	"&", "|", "*", "...", "?", "!", "=", ".", ">", "=~", "if", "for", "in", "let", "\n", "// c\n", "@x(y)",
	"import", "package", "-", "+", "/", "==", "_|_", "_", `"`, `\`, "#", "<=",
}

var hostileRunes = []string{`"`, `'`, `\`, `#`, "\n", "\r", "\t", "a", " ", "\x00", "\x7f", "é", "\u2028", "�", "\U0001F604"}
var hostileBytes = []string{"\x80", "\xff", "\xc3"}

type form struct {
	name  string
	f     literal.Form
	bytes bool
}

func forms() []form {
	var out []form
	for _, base := range []struct {
		n string
		f literal.Form
		b bool
	}{{"String", literal.String, false}, {"Bytes", literal.Bytes, true}} {
		add := func(n string, f literal.Form) { out = append(out, form{base.n + n, f, base.b}) }
		f := base.f
		add("", f)
		add(".Tab0", f.WithTabIndent(0))
		add(".Tab1", f.WithTabIndent(1))
		add(".Tab2", f.WithTabIndent(2))
		add(".OptTab1", f.WithOptionalTabIndent(1))
		add(".OptHash", f.WithOptionalHashes())
		add(".ASCII", f.WithASCIIOnly())
		add(".Graphic", f.WithGraphicOnly())
		add(".Tab1.ASCII", f.WithTabIndent(1).WithASCIIOnly())
		add(".OptTab1.OptHash", f.WithOptionalTabIndent(1).WithOptionalHashes())
		add(".OptHash.ASCII", f.WithOptionalHashes().WithASCIIOnly())
		add(".Tab1.Graphic", f.WithTabIndent(1).WithGraphicOnly())
		add(".OptHash.Graphic", f.WithOptionalHashes().WithGraphicOnly())
	}
	return out
}

var allForms = forms()

func run(r *core.Run) {
	soupL, strL, spellL := 4, 4, 5
	if r.Thorough() {
		soupL, strL, spellL = 5, 5, 7
	}
	// (b) quoting
	for l := 0; l <= strL; l++ {
		r.Section(fmt.Sprintf("quote: strings<=%d", l))
		for fi, f := range allForms {
			alpha := hostileRunes
			if f.bytes {
				alpha = append(append([]string{}, hostileRunes...), hostileBytes...)
			}
			gen.Tuples(l, len(alpha), func(ix []int) bool {
				if !r.Mine() {
					return !r.Expired()
				}
				var sb strings.Builder
				for _, i := range ix {
					sb.WriteString(alpha[i])
				}
				c := mk("quote", sb.String())
				c.Form = fi
				r.Guard(c, func() { checkQuote(r, c, l <= 3) })
				return true
			})
		}
	}
	// (c) spellings
	for l := 1; l <= spellL; l++ {
		r.Section(fmt.Sprintf("spell: candidates<=%d", l))
		for _, cat := range spellCats {
			if cat.name == "id" && l > 4 {
				continue
			}
			gen.Tuples(l, len(cat.alpha), func(ix []int) bool {
				if !r.Mine() {
					return !r.Expired()
				}
				var sb strings.Builder
				for _, i := range ix {
					sb.WriteString(cat.alpha[i])
				}
				c := mk("spell", sb.String())
				c.Cat = cat.name
				r.Guard(c, func() { checkSpell(r, c) })
				return true
			})
		}
	}
	// (c') multi-line string and bytes literals: every body of one line of <=3
	// tokens or two lines of <=2 tokens over an alphabet of escapes, quote
	// runs, blanks and a hash, for both quote kinds, 0-1 hashes, with and
	// without indentation
	multiLine(r)
	// (a) corpus prefixes / deletions
	r.Section("soup: corpus prefixes+deletions")
	seeds := gen.Corpus([]string{"cue/parser", "cue/format/testdata", "doc/tutorial", "cue/testdata/eval"}, 1200)
	if len(seeds) > 40 {
		// spread over the sorted list deterministically
		step := len(seeds) / 40
		var s2 []gen.CorpusFile
		for i := 0; i < 40; i++ {
			s2 = append(s2, seeds[i*step])
		}
		seeds = s2
	}
	for _, s := range seeds {
		for i := 0; i <= len(s.Src); i++ {
			if r.Mine() {
				c := mk("soup", string(s.Src[:i]))
				r.Guard(c, func() { checkSoup(r, c) })
			}
			if i < len(s.Src) && r.Mine() {
				c := mk("soup", string(s.Src[:i])+string(s.Src[i+1:]))
				r.Guard(c, func() { checkSoup(r, c) })
			}
		}
		if r.Expired() {
			break
		}
	}
	// (a) soups
	for l := 0; l <= soupL; l++ {
		for _, sep := range []string{"", " "} {
			if l < 2 && sep == " " || r.Quick() && l == soupL && sep == " " {
				continue
			}
			r.Section(fmt.Sprintf("soup: tokens<=%d sep=%q", l, sep))
			gen.Tuples(l, len(soupTokens), func(ix []int) bool {
				if !r.Mine() {
					return !r.Expired()
				}
				parts := make([]string, len(ix))
				for j, i := range ix {
					parts[j] = soupTokens[i]
				}
				c := mk("soup", strings.Join(parts, sep))
				r.Guard(c, func() { checkSoup(r, c) })
				return true
			})
		}
	}
}

func replay(r *core.Run, raw json.RawMessage) {
	var c kase
	if err := json.Unmarshal(raw, &c); err != nil {
		r.EngineError(err.Error())
		return
	}
	switch c.Kind {
	case "soup":
		checkSoup(r, c)
	case "quote":
		checkQuote(r, c, true)
	case "spell":
		checkSpell(r, c)
	}
}

// ---------- (a) totality and positions ----------

func checkSoup(r *core.Run, c kase) {
	src := []byte(c.Src)
	okAny := false
	for _, mode := range [][]parser.Option{nil, {parser.ParseComments}} {
		f, err := parser.ParseFile("x.cue", src, mode...)
		r.Trans(1)
		if err != nil {
			for _, e := range errors.Errors(err) {
				for _, p := range errors.Positions(e) {
					if p.IsValid() && p.File() != nil && (p.Offset() < 0 || p.Offset() > len(src)) {
						r.Violation("error position outside input", c, fmt.Sprintf("offset %d, len %d, err %v", p.Offset(), len(src), e))
					}
				}
			}
		}
		if f != nil {
			if msg := checkPositions(f, len(src), err == nil); msg != "" {
				key := "node positions inconsistent (parse ok)"
				if err != nil {
					key = "node positions inconsistent (parse error)"
				}
				r.Violation(key, c, msg)
			}
		}
		if err == nil && f != nil && len(f.Decls) > 0 {
			okAny = true
		}
		// expression entry point as well
		e, eerr := parser.ParseExpr("x.cue", src, mode...)
		if e != nil {
			if msg := checkPositions(e, len(src), eerr == nil); msg != "" {
				r.Violation("node positions inconsistent (ParseExpr)", c, msg)
			}
		}
	}
	if okAny {
		r.Outcome("soup:ok")
		r.Nontrivial()
		r.Sample(c)
	} else {
		r.Outcome("soup:err")
	}
}

// checkPositions verifies: every valid position within [0,size]; start<=end;
// children within parents; siblings ordered and non-overlapping. Comment
// groups are only range-checked (doc comments precede their node).
// The structural checks (containment, ordering) are demanded only when strict
// (the parse succeeded): after error recovery the tree may hold BadExpr/NoPos.
func checkPositions(root ast.Node, size int, strict bool) string {
	type frame struct {
		n        ast.Node
		lo, hi   int
		valid    bool
		lastEnd  int
		lastNode ast.Node
	}
	var stack []frame
	msg := ""
	fail := func(format string, args ...any) {
		if msg == "" {
			msg = fmt.Sprintf(format, args...)
		}
	}
	rng := func(n ast.Node) (lo, hi int, ok bool) {
		p, e := n.Pos(), n.End()
		if !p.IsValid() || !p.HasAbsPos() {
			return 0, 0, false
		}
		lo = p.Offset()
		if lo < 0 || lo > size {
			fail("%T start offset %d outside [0,%d]", n, lo, size)
		}
		if !e.IsValid() || !e.HasAbsPos() {
			return lo, lo, false
		}
		hi = e.Offset()
		if hi < 0 || hi > size {
			fail("%T end offset %d outside [0,%d]", n, hi, size)
		}
		if hi < lo {
			fail("%T end %d before start %d", n, hi, lo)
		}
		return lo, hi, true
	}
	ast.Walk(root, func(n ast.Node) bool {
		switch n.(type) {
		case *ast.CommentGroup, *ast.Comment:
			rng(n)
			return false
		}
		lo, hi, ok := rng(n)
		if _, isFile := n.(*ast.File); isFile {
			ok = false // File.Pos is the first decl; do not use as a container
		}
		if ok && strict && len(stack) > 0 {
			p := &stack[len(stack)-1]
			if p.valid && (lo < p.lo || hi > p.hi) {
				fail("%T [%d,%d) not within parent %T [%d,%d)", n, lo, hi, p.n, p.lo, p.hi)
			}
			if p.lastNode != nil && lo < p.lastEnd {
				fail("%T [%d,%d) starts before end %d of previous sibling %T (parent %T)", n, lo, hi, p.lastEnd, p.lastNode, p.n)
			}
			p.lastEnd, p.lastNode = hi, n
		}
		stack = append(stack, frame{n: n, lo: lo, hi: hi, valid: ok})
		return true
	}, func(n ast.Node) {
		switch n.(type) {
		case *ast.CommentGroup, *ast.Comment:
			return
		}
		stack = stack[:len(stack)-1]
	})
	return msg
}

// ---------- (b) quoting ----------

var evalCtx = cuecontext.New()

func checkQuote(r *core.Run, c kase, evaluate bool) {
	f := allForms[c.Form]
	s := c.Src
	if !f.bytes && !utf8.ValidString(s) {
		return
	}
	q := f.f.Quote(s)
	r.Trans(1)
	got, err := literal.Unquote(q)
	if err != nil {
		r.Violation("quote: Unquote fails on Quote output ["+f.name+"]", c, fmt.Sprintf("quoted=%q err=%v", q, err))
		return
	}
	if got != s {
		r.Violation("quote: Unquote(Quote(s)) != s ["+f.name+"]", c, fmt.Sprintf("quoted=%q got=%q want=%q", q, got, s))
		return
	}
	r.Outcome("quote:roundtrip")
	if strings.Contains(q, `\`) || strings.HasPrefix(q, "#") {
		r.Nontrivial()
		r.Sample(map[string]string{"form": f.name, "s": fmt.Sprintf("%q", s), "quoted": q})
	}
	if strings.Contains(f.name, "ASCII") {
		for i := 0; i < len(q); i++ {
			if q[i] >= 0x80 {
				r.Violation("quote: ASCIIOnly output has non-ASCII byte ["+f.name+"]", c, fmt.Sprintf("quoted=%q", q))
				break
			}
		}
	}
	// scanner: exactly one STRING token, no errors
	var sc scanner.Scanner
	nerr := 0
	file := token.NewFile("q.cue", -1, len(q))
	sc.Init(file, []byte(q), func(pos token.Pos, msg string, args []interface{}) { nerr++ }, 0)
	_, tok, lit := sc.Scan()
	_, tok2, _ := sc.Scan()
	_, tok3, _ := sc.Scan()
	if nerr != 0 || tok != token.STRING || lit != q || !(tok2 == token.EOF || tok2 == token.COMMA && tok3 == token.EOF) {
		r.Violation("quote: scanner does not see one STRING token ["+f.name+"]", c,
			fmt.Sprintf("quoted=%q tok=%v lit=%q next=%v,%v errs=%d", q, tok, lit, tok2, tok3, nerr))
		return
	}
	// parser: one BasicLit
	e, err := parser.ParseExpr("q.cue", q)
	bl, ok := e.(*ast.BasicLit)
	if err != nil || !ok || bl.Kind != token.STRING || bl.Value != q {
		r.Violation("quote: parser does not see one string BasicLit ["+f.name+"]", c, fmt.Sprintf("quoted=%q expr=%T err=%v", q, e, err))
		return
	}
	if evaluate {
		v := evalCtx.BuildExpr(e)
		var ev string
		var verr error
		if f.bytes {
			var b []byte
			b, verr = v.Bytes()
			ev = string(b)
		} else {
			ev, verr = v.String()
		}
		if verr != nil || ev != s {
			r.Violation("quote: evaluated literal differs ["+f.name+"]", c, fmt.Sprintf("quoted=%q got=%q err=%v", q, ev, verr))
		}
	}
}

// ---------- (c) spellings ----------

type spellCat struct {
	name  string
	alpha []string
}

var spellCats = []spellCat{
	{"num", []string{"0", "1", "9", "_", ".", "e", "E", "+", "-", "x", "b", "o", "f", "K", "M", "i"}},
	{"str", []string{`"`, "#", `\`, "n", "u", "0", "(", ")", "a", "'", "\n"}},
	{"id", []string{"a", "_", "#", "$", "1", "é", "-"}},
}

func checkSpell(r *core.Run, c kase) {
	s := c.Src
	r.Trans(1)
	// scanner verdict: a single token of the right class covering all input, no errors
	var sc scanner.Scanner
	nerr := 0
	file := token.NewFile("s.cue", -1, len(s))
	sc.Init(file, []byte(s), func(pos token.Pos, msg string, args []interface{}) { nerr++ }, 0)
	_, tok, lit := sc.Scan()
	_, tok2, _ := sc.Scan()
	_, tok3, _ := sc.Scan()
	single := nerr == 0 && lit == s && (tok2 == token.EOF || tok2 == token.COMMA && tok3 == token.EOF)
	e, perr := parser.ParseExpr("s.cue", s)
	switch c.Cat {
	case "num":
		if s[0] == '+' || s[0] == '-' {
			// ParseNum deliberately handles one leading sign (NumInfo records
			// it); for scanner and parser the sign is a unary operator. So the
			// signed spelling is compared on its unsigned rest.
			var n2 literal.NumInfo
			litSigned := literal.ParseNum(s, &n2) == nil
			litRest := literal.ParseNum(s[1:], &n2) == nil
			if litSigned != litRest && !(len(s) > 1 && (s[1] == '+' || s[1] == '-')) {
				r.Violation(fmt.Sprintf("spell: num ParseNum signed/unsigned disagree: %s", s), c, fmt.Sprintf("signed=%v rest=%v", litSigned, litRest))
			}
			return
		}
		scanOK := single && (tok == token.INT || tok == token.FLOAT)
		bl, _ := e.(*ast.BasicLit)
		parseOK := perr == nil && bl != nil && (bl.Kind == token.INT || bl.Kind == token.FLOAT) && bl.Value == s
		var ni literal.NumInfo
		litOK := literal.ParseNum(s, &ni) == nil
		// A leading sign is not part of a number literal for scanner and parser
		// (it is a unary operator); ParseNum is specified for literals only.
		if scanOK && parseOK && !litOK && nonIntegralSI(s) {
			// Grammatical si_lit whose value (mantissa x multiplier) is not an
			// integer: ParseNum reports a value error ("cannot be represented
			// as int"), which is not a spelling verdict.
			r.Unclaimed("spell:num si_lit with non-integral value")
			return
		}
		verdict(r, c, "num", scanOK, parseOK, litOK)
		if scanOK && litOK && (tok == token.INT) != ni.IsInt() {
			r.Violation("spell: scanner and literal disagree on int/float kind", c, fmt.Sprintf("tok=%v IsInt=%v", tok, ni.IsInt()))
		}
	case "str":
		if single && tok == token.INTERPOLATION || strings.Contains(s, `\(`) {
			r.Unclaimed("spell:str with interpolation")
			return
		}
		scanOK := single && tok == token.STRING
		bl, _ := e.(*ast.BasicLit)
		parseOK := perr == nil && bl != nil && bl.Kind == token.STRING && bl.Value == s
		_, uerr := literal.Unquote(s)
		verdict(r, c, "str", scanOK, parseOK, uerr == nil)
	case "id":
		scanOK := single && tok == token.IDENT
		id, _ := e.(*ast.Ident)
		parseOK := perr == nil && id != nil && id.Name == s
		verdict(r, c, "id", scanOK, parseOK, ast.IsValidIdent(s))
	}
}

// nonIntegralSI reports whether s is digits[.digits] + multiplier and the
// exact value is not an integer (computed independently with big.Rat).
func nonIntegralSI(s string) bool {
	m := siRe.FindStringSubmatch(s)
	if m == nil {
		return false
	}
	mant := strings.ReplaceAll(m[1], "_", "")
	if strings.HasPrefix(mant, ".") {
		mant = "0" + mant
	}
	v, ok := new(big.Rat).SetString(mant)
	if !ok {
		return false
	}
	exp := map[byte]int64{'K': 1, 'M': 2, 'G': 3, 'T': 4, 'P': 5}[m[2][0]]
	base := int64(1000)
	if len(m[2]) == 2 {
		base = 1024
	}
	mul := new(big.Int).Exp(big.NewInt(base), big.NewInt(exp), nil)
	v.Mul(v, new(big.Rat).SetInt(mul))
	return !v.IsInt()
}

var siRe = regexp.MustCompile(`^([0-9_]*\.?[0-9_]*)([KMGTP]i?)$`)

func verdict(r *core.Run, c kase, cat string, scanOK, parseOK, litOK bool) {
	if scanOK == parseOK && parseOK == litOK {
		if scanOK {
			r.Outcome("spell:" + cat + ":valid")
			r.Nontrivial()
			r.Sample(c)
		} else {
			r.Outcome("spell:" + cat + ":invalid")
		}
		return
	}
	srcKey := c.Src
	if strings.Contains(srcKey, "\n") {
		srcKey = fmt.Sprintf("%q", srcKey)
	}
	r.Violation(fmt.Sprintf("spell: %s validity disagreement scanner=%v parser=%v literal=%v: %s%s", cat, scanOK, parseOK, litOK, srcKey, multiLineTags(c.Src)), c,
		fmt.Sprintf("spelling %q", c.Src))
}

// multiLineTags classifies a multi-line literal spelling for violation keys.
func multiLineTags(s string) string {
	h := 0
	for h < len(s) && s[h] == '#' {
		h++
	}
	if len(s) < h+4 || (s[h] != '"' && s[h] != '\'') || s[h+1] != s[h] || s[h+2] != s[h] || s[h+3] != '\n' {
		return ""
	}
	q := strings.Repeat(string(s[h]), 3)
	lines := strings.Split(s, "\n")
	if len(lines) < 3 {
		return ""
	}
	esc := "\\" + strings.Repeat("#", h)
	tags := ""
	closing, contin := false, false
	for _, l := range lines[1 : len(lines)-1] {
		if strings.HasPrefix(strings.TrimLeft(l, " \t"), q) {
			closing = true
		}
		// does the line end in an unescaped escape introducer?
		i := 0
		for i < len(l) {
			if strings.HasPrefix(l[i:], esc) {
				if i+len(esc) == len(l) {
					contin = true
				}
				i += len(esc) + 1
				continue
			}
			i++
		}
	}
	if closing {
		tags += " [body-line-starts-with-the-closing-delimiter]"
	}
	if contin {
		tags += " [escape-introducer-at-end-of-line]"
	}
	return tags
}

func multiLine(r *core.Run) {
	r.Section("spell: multi-line string/bytes literals, bodies of 1 line (<=3 tokens) and 2 lines (<=2 tokens each)")
	lineToks := func(q string) []string {
		return []string{"\\" + q, "\\n", "\\\\", "\\t", q, q + q, q + q + q, "a", " ", "#", "\\#n", "\\x41"}
	}
	linesUpTo := func(toks []string, n int) []string {
		out := []string{""}
		for l := 1; l <= n; l++ {
			gen.Tuples(l, len(toks), func(ix []int) bool {
				var sb strings.Builder
				for _, i := range ix {
					sb.WriteString(toks[i])
				}
				out = append(out, sb.String())
				return true
			})
		}
		return out
	}
	for _, q := range []string{`"`, "'"} {
		toks := lineToks(q)
		one := linesUpTo(toks, 3)
		two := linesUpTo(toks, 2)
		for hashes := 0; hashes <= 1; hashes++ {
			h := strings.Repeat("#", hashes)
			for _, indent := range []string{"", "\t"} {
				emit := func(body []string) bool {
					if !r.Mine() {
						return !r.Expired()
					}
					var sb strings.Builder
					sb.WriteString(h + q + q + q + "\n")
					for _, l := range body {
						sb.WriteString(indent + l + "\n")
					}
					sb.WriteString(indent + q + q + q + h)
					c := mk("spell", sb.String())
					c.Cat = "str"
					r.Guard(c, func() { checkSpell(r, c) })
					return true
				}
				for _, l := range one {
					if !emit([]string{l}) {
						return
					}
				}
				for _, l1 := range two {
					for _, l2 := range two {
						if !emit([]string{l1, l2}) {
							return
						}
					}
				}
			}
		}
	}
}
