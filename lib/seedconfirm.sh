#!/bin/bash
# seedconfirm.sh <worktree> <seed-dir> <demo-pkg-dir> <test-name-regex> [extra test packages...]
# Confirms in the scratch worktree: demo fails with the change, passes without; listed package tests pass with it.
WT="$1"; DIR="$2"; PKG="$3"; RUN="$4"; shift 4
. /verif/lib/env.sh
cd "$WT" || exit 2
git checkout -q -- . ; git clean -fdq
cp "$DIR/demo_test.go" "$PKG/zz_seeddemo_test.go"
go test -count=1 -run "$RUN" "./$PKG" >/tmp/seedconfirm.base 2>&1; base=$?
git apply "$DIR/patch.diff" || { echo "patch does not apply"; exit 2; }
go test -count=1 -run "$RUN" "./$PKG" >/tmp/seedconfirm.mut 2>&1; mut=$?
rm -f "$PKG/zz_seeddemo_test.go"
echo "demo without change: rc=$base (want 0); with change: rc=$mut (want != 0)"
go build ./... || echo "BUILD FAILS"
for p in "$@"; do go test -count=1 -p 4 "$p" 2>&1 | grep -v "^ok\|no test files" | tail -5; done
echo "package tests done"
