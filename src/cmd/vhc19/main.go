// Command vhc19 hosts the C19 harness; built with instrumented copies of the
// files that hold the shared mutable state behind cue.Value (label index,
// import/type caches, decode field cache, token.File) and, for the race pass,
// with -race.
package main

import (
	"cuelang.org/go/internal/verif/core"
	_ "cuelang.org/go/internal/verif/h/c19"
)

func main() { core.Main() }
