// Package c03: unifying scalars, types and bounds is exact set intersection.
//
// E1: every multiset of <=k constraints from the alphabet x every atom of the
// alphabet, on the real evaluator, against model.Constraint.Sat (big.Rat).
package c03

import (
	"encoding/json"
	"fmt"
	"math/big"
	"strings"

	"cuelang.org/go/cue"
	"cuelang.org/go/cue/cuecontext"
	"cuelang.org/go/internal/verif/canon"
	"cuelang.org/go/internal/verif/core"
	"cuelang.org/go/internal/verif/gen"
	"cuelang.org/go/internal/verif/model"
)

func init() {
	core.Register(&core.Prop{
		ID: "C03",
		Rule: "E1 bounded-exhaustive: every multiset of <=k constraints (atoms, basic types, uint/uint8/int8, every comparison operator x 13 constants incl. 10/100 for the large-range fast path and x.5 for integer re-adjustment, !=null, !=true, =~, !~) x every atom of a 49-atom alphabet; " +
			"oracle = independent set-membership model. Non-trivial = conjunctions that accept at least one and reject at least one atom of the alphabet.",
		Assumptions: []string{"model in /verif/src/model/scalar.go (kinds, big.Rat comparison, bytewise string order, Go regexp)"},
		Run:         run, Replay: replay,
		RequireOutcomes: []string{"bottom", "concrete", "nonconcrete", "accept", "reject"},
		BudgetQuick:     150, BudgetThorough: 1500,
	})
}

type kase struct {
	Expr string `json:"expr"`
	Ix   []int  `json:"ix"`
	Full bool   `json:"full"`
	Wide bool   `json:"wide,omitempty"` // wide-range family (model.WideConstraints / WideAtoms)
}

var atoms = model.ScalarAtoms()

func run(r *core.Run) {
	runWide(r)
	reduced := model.ScalarConstraints(false)
	full := model.ScalarConstraints(true)
	plan := []struct {
		cs   []model.Constraint
		full bool
		k    int
	}{{full, true, 1}, {full, true, 2}, {reduced, false, 3}}
	if r.Thorough() {
		plan = append(plan, struct {
			cs   []model.Constraint
			full bool
			k    int
		}{full, true, 3}, struct {
			cs   []model.Constraint
			full bool
			k    int
		}{reduced, false, 4})
	}
	for _, p := range plan {
		r.Section(fmt.Sprintf("constraints=%d k=%d", len(p.cs), p.k))
		ctx := cuecontext.New()
		av := compileAtoms(ctx)
		n := 0
		gen.Multisets(p.k, len(p.cs), func(ix []int) bool {
			if !r.Mine() {
				return !r.Expired()
			}
			n++
			if n%2000 == 0 { // bound context growth
				ctx = cuecontext.New()
				av = compileAtoms(ctx)
			}
			c := kase{Ix: append([]int{}, ix...), Full: p.full}
			r.Guard(c, func() { check(r, ctx, atoms, av, p.cs, c) })
			return true
		})
	}
}

func compileAtomList(ctx *cue.Context, as []model.Atom) []cue.Value {
	out := make([]cue.Value, len(as))
	for i, a := range as {
		out[i] = ctx.CompileString(a.Src)
	}
	return out
}

// runWide: the wide-range family (ranges that span a machine integer type).
func runWide(r *core.Run) {
	wa, wc := model.WideAtoms(), model.WideConstraints()
	kmax := 3
	for k := 2; k <= kmax; k++ {
		r.Section(fmt.Sprintf("wide ranges: constraints=%d k=%d x %d boundary atoms", len(wc), k, len(wa)))
		ctx := cuecontext.New()
		av := compileAtomList(ctx, wa)
		n := 0
		gen.Multisets(k, len(wc), func(ix []int) bool {
			if !r.Mine() {
				return !r.Expired()
			}
			n++
			if n%2000 == 0 {
				ctx = cuecontext.New()
				av = compileAtomList(ctx, wa)
			}
			c := kase{Ix: append([]int{}, ix...), Wide: true}
			r.Guard(c, func() { check(r, ctx, wa, av, wc, c) })
			return true
		})
	}
}

func compileAtoms(ctx *cue.Context) []cue.Value {
	out := make([]cue.Value, len(atoms))
	for i, a := range atoms {
		out[i] = ctx.CompileString(a.Src)
	}
	return out
}

func replay(r *core.Run, raw json.RawMessage) {
	var c kase
	if err := json.Unmarshal(raw, &c); err != nil {
		r.EngineError(err.Error())
		return
	}
	ctx := cuecontext.New()
	if c.Wide {
		wa := model.WideAtoms()
		check(r, ctx, wa, compileAtomList(ctx, wa), model.WideConstraints(), c)
		return
	}
	check(r, ctx, atoms, compileAtoms(ctx), model.ScalarConstraints(c.Full), c)
}

func exprOf(cs []model.Constraint, ix []int) string {
	parts := make([]string, len(ix))
	for i, j := range ix {
		parts[i] = "(" + cs[j].Src + ")"
	}
	return strings.Join(parts, " & ")
}

// toAtom converts a concrete scalar cue.Value into a model atom.
func toAtom(v cue.Value) (model.Atom, bool) {
	switch v.Kind() {
	case cue.NullKind:
		return model.Null(), true
	case cue.BoolKind:
		b, _ := v.Bool()
		return model.Bool(b), true
	case cue.IntKind, cue.FloatKind:
		b, err := v.MarshalJSON()
		if err != nil {
			return model.Atom{}, false
		}
		rt, ok := new(big.Rat).SetString(string(b))
		if !ok {
			return model.Atom{}, false
		}
		k := "int"
		if v.Kind() == cue.FloatKind {
			k = "float"
		}
		return model.Atom{Src: string(b), Kind: k, Num: rt}, true
	case cue.StringKind:
		s, _ := v.String()
		return model.Str(s), true
	case cue.BytesKind:
		b, _ := v.Bytes()
		return model.Bytes(string(b)), true
	}
	return model.Atom{}, false
}

func check(r *core.Run, ctx *cue.Context, atoms []model.Atom, av []cue.Value, cs []model.Constraint, c kase) {
	c.Expr = exprOf(cs, c.Ix)
	e := ctx.CompileString(c.Expr)
	sat := func(a model.Atom) bool {
		for _, j := range c.Ix {
			if !cs[j].Sat(a) {
				return false
			}
		}
		return true
	}
	nAcc := 0
	for i, a := range atoms {
		u := e.Unify(av[i])
		r.Trans(1)
		want := sat(a)
		ok := u.Err() == nil && canon.ErrClass(u) == ""
		if ok != want {
			r.Violation(fmt.Sprintf("membership: impl=%v model=%v: %s & %s", ok, want, c.Expr, a.Src), c,
				fmt.Sprintf("(%s) & %s: implementation %s, model %s; err=%v", c.Expr, a.Src, acc(ok), acc(want), u.Err()))
			return
		}
		if ok {
			nAcc++
			got, isAtom := toAtom(u)
			if !isAtom || !got.Equal(a) {
				r.Violation(fmt.Sprintf("result-not-atom: %s & %s", c.Expr, a.Src), c, fmt.Sprintf("(%s) & %s = %v, want exactly %s", c.Expr, a.Src, u, a.Src))
				return
			}
			r.Outcome("accept")
		} else {
			r.Outcome("reject")
		}
	}
	// E alone
	switch {
	case canon.ErrClass(e) != "":
		r.Outcome("bottom")
		if canon.ErrClass(e) == "error" {
			for _, a := range atoms {
				if sat(a) {
					r.Violation(fmt.Sprintf("bottom-but-satisfiable: %s (e.g. %s)", c.Expr, a.Src), c, fmt.Sprintf("%s evaluates to bottom (%v) but %s satisfies every conjunct", c.Expr, e.Err(), a.Src))
					return
				}
			}
		}
	case e.IsConcrete():
		r.Outcome("concrete")
		got, isAtom := toAtom(e)
		if isAtom {
			if !sat(got) {
				r.Violation(fmt.Sprintf("pinned-wrong-atom: %s -> %s", c.Expr, got.Src), c, fmt.Sprintf("%s evaluates to %v which does not satisfy the conjuncts", c.Expr, e))
				return
			}
			for _, a := range atoms {
				if sat(a) && !a.Equal(got) {
					r.Violation(fmt.Sprintf("pinned-but-not-unique: %s -> %s, also %s", c.Expr, got.Src, a.Src), c, "")
					return
				}
			}
		}
	default:
		r.Outcome("nonconcrete")
	}
	if nAcc > 0 && nAcc < len(atoms) {
		r.Nontrivial()
		r.Sample(map[string]any{"expr": c.Expr, "accepted_atoms": nAcc, "of": len(atoms)})
	}
	r.State(c.Expr)
}

func acc(b bool) string {
	if b {
		return "accepts"
	}
	return "rejects"
}
