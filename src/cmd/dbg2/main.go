package main

import (
	"archive/zip"
	"bytes"
	"fmt"
	"io/fs"
	"os"

	"cuelang.org/go/mod/modzip"
	"cuelang.org/go/mod/module"
)

func main() {
	var buf bytes.Buffer
	zw := zip.NewWriter(&buf)
	w, _ := zw.Create("cue.mod/module.cue")
	w.Write([]byte("module: \"example.com/m@v0\"\nlanguage: version: \"v0.9.0\"\n"))
	h := &zip.FileHeader{Name: "a:b", Method: zip.Deflate}
	h.SetMode(fs.ModeDir | 0o755)
	w, err := zw.CreateHeader(h)
	fmt.Println("createheader", err)
	w.Write([]byte("abc"))
	zw.Close()
	os.WriteFile("/tmp/t1/x.zip", buf.Bytes(), 0o644)
	os.RemoveAll("/tmp/t1/xt")
	mv := module.MustNewVersion("example.com/m@v0", "v0.1.0")
	fmt.Println("unzip:", modzip.Unzip("/tmp/t1/xt", mv, "/tmp/t1/x.zip"))
	zr, _ := zip.NewReader(bytes.NewReader(buf.Bytes()), int64(buf.Len()))
	for _, f := range zr.File {
		fmt.Println(f.Name, f.Mode(), f.Mode().IsDir())
	}
}
