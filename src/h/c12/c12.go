// Package c12: cue export / cue import are inverse across JSON, YAML, TOML, CUE.
//
// E1 driving the real `cue` binary built from the working tree: every value of
// a bounded data set x every (encoding, input form, flag set) of a fixed CLI
// matrix; plus an exit-status truth table for non-concrete / erroneous input.
package c12

import (
	"bytes"
	"context"
	"encoding/json"
	"fmt"
	"math"
	"math/big"
	"os"
	"os/exec"
	"path/filepath"
	"strings"
	"time"

	cuecmd "cuelang.org/go/cmd/cue/cmd"
	"cuelang.org/go/cue/cuecontext"
	"cuelang.org/go/internal/verif/core"
	"cuelang.org/go/internal/verif/gen"
	"cuelang.org/go/internal/verif/tree"
	goccy "github.com/goccy/go-yaml"
	toml "github.com/pelletier/go-toml/v2"
	yamlv3 "go.yaml.in/yaml/v3"
)

func init() {
	core.Register(&core.Prop{
		ID: "C12",
		Rule: "E1: every value of the data set (hostile strings and keys, boundary numbers, lists, nested tables, arrays of tables, mixed arrays, empty containers; TOML-safe subset for TOML) x {json, yaml, toml, cue} x {file argument, package directory, stdin} x flag sets (--out, -o file.ext, -e path, --escape) through the real cue binary; " +
			"export -> independent read == JSON tree; export -> cue import -> export --out json == original; exit-status truth table for incomplete / conflicting / non-concrete input. Non-trivial = values with a container or a string needing quoting.",
		Assumptions: []string{"the cue binary is built from /repo's working tree by lib/build.sh", "independent readers: Go encoding/json, goccy/go-yaml, pelletier/go-toml/v2 (TOML key order ignored)"},
		Run:         run, Replay: replay,
		RequireOutcomes: []string{"loop:ok", "status:fails-as-expected", "status:succeeds-as-expected"},
		BudgetQuick:     240, BudgetThorough: 1500,
		StallSeconds: 300,
		Workers:      8,
	})
}

type kase struct {
	Kind string `json:"kind"` // value | status
	CUE  string `json:"cue"`
	TOML bool   `json:"toml_safe"`
	Want string `json:"want,omitempty"` // status: ok | fail
	Only string `json:"only,omitempty"` // value: restrict the loop to these encodings (layout family)
}

var cueBin = "/verif/.work/bin/cue"

func values(thorough bool) []kase {
	var out []kase
	add := func(d gen.Data, tomlSafe bool) {
		out = append(out, kase{Kind: "value", CUE: d.CUE(), TOML: tomlSafe})
	}
	strs := []string{"", "a", " a ", "a\nb", "\n", "\"", "'", "\\", "<&>", "\t", "é", "\U0001F600", "\u0000", "\u007f", "null", "true", "1", "1.5", "- a", "a: b", "#", "[x]", "{x}", "yes", "0x1f", "2001-01-01", "...", "---", "a=b", "\"\"\"", "'''", "\\u0041"}
	strs = append(strs, gen.HostileStrings...)
	for _, s := range strs {
		add(gen.DStruct("v", gen.DStr(s)), true)
	}
	for _, n := range []gen.Data{gen.DInt("0"), gen.DInt("-1"), gen.DInt("9223372036854775807"), gen.DInt("-9223372036854775808"), gen.DFloat("1.5"), gen.DFloat("-0.5"), gen.DFloat("1e2"), gen.DFloat("1e-2"), gen.DFloat("0.1"), gen.DFloat("1.0"),
		{Kind: "bool", B: true}, {Kind: "bool", B: false}} {
		add(gen.DStruct("v", n), true)
	}
	for _, n := range []gen.Data{gen.DInt("9223372036854775808"), gen.DInt("123456789012345678901"), gen.DFloat("1e400"), {Kind: "null"}} {
		add(gen.DStruct("v", n), false)
	}
	keys := []string{"a b", "a.b", "a-b", "1", "", "é", "#x", "_h", "\"", "'", "a\nb", "true", "a=b", "[t]", "\u0000", "\U0001F600"}
	for _, k := range keys {
		add(gen.DStruct(k, gen.DInt("1")), true)
		add(gen.DStruct("t", gen.DStruct(k, gen.DStruct("x", gen.DInt("1")))), true)
	}
	one, s := gen.DInt("1"), gen.DStr("s")
	tbl := gen.DStruct("a", one)
	containers := []gen.Data{
		gen.DStruct(), gen.DStruct("l", gen.DList()), gen.DStruct("t", gen.DStruct()),
		gen.DStruct("l", gen.DList(one, gen.DInt("2"))), gen.DStruct("l", gen.DList(one, s, gen.DFloat("1.5"), gen.Data{Kind: "bool", B: true})),
		gen.DStruct("l", gen.DList(gen.DList(one), gen.DList(s, s))), gen.DStruct("l", gen.DList(gen.DList(), gen.DList(gen.DList()))),
		gen.DStruct("aot", gen.DList(tbl, gen.DStruct("a", gen.DInt("2"), "b", gen.DStruct("c", one)))),
		gen.DStruct("aot", gen.DList(gen.DStruct(), tbl)), gen.DStruct("mixed", gen.DList(one, tbl, gen.DList(tbl))),
		gen.DStruct("a", gen.DStruct("b", gen.DStruct("c", gen.DStruct("d", one))), "e", one),
		gen.DStruct("a", one, "t", gen.DStruct("b", one), "c", one), // scalar after table: TOML must reorder or use dotted keys
		gen.DStruct("t", gen.DStruct("l", gen.DList(tbl, tbl), "x", one), "u", gen.DStruct("l", gen.DList(gen.DStruct("m", gen.DList(tbl))))),
		gen.DStruct("a", gen.DStruct("b", one), "a2", gen.DStruct("b", gen.DStruct("c", gen.DList(gen.DStruct("d", gen.DStruct("e", one)))))),
		gen.DStruct("x", gen.DStr("multi\nline\n"), "y", gen.DStr("tab\there"), "z", gen.DList(gen.DStr("a\nb"))),
	}
	for _, c := range containers {
		add(c, true)
	}
	// layout family: two sibling keys, one a textual prefix of the other (or
	// containing a dot or a space), each holding a scalar, a table, an array of
	// tables, nested ones or an empty container - at the top level and inside
	// a parent table. TOML headers ([t], [[t]], [t.u]) are where siblings can
	// be confused.
	shapes := []gen.Data{one, tbl, gen.DList(tbl, gen.DStruct("a", gen.DInt("2"))),
		gen.DList(gen.DStruct("a", gen.DStruct("b", one)), gen.DStruct("c", gen.DList(gen.DStruct("d", one)))),
		gen.DStruct("l", gen.DList(tbl), "x", one), gen.DStruct()}
	keyPairs := [][2]string{{"foo", "foobar"}, {"foobar", "foo"}, {"foo", "foo.bar"}, {"a b", "a"}}
	only := "toml"
	if thorough {
		keyPairs = append(keyPairs, [2]string{"foo.bar", "foo"}, [2]string{"t", "t2"}, [2]string{"é", "éa"}, [2]string{"foo", "foo-bar"})
		only = "toml,yaml"
	}
	for _, kp := range keyPairs {
		for _, s1 := range shapes {
			for _, s2 := range shapes {
				d := gen.DStruct(kp[0], s1, kp[1], s2)
				out = append(out, kase{Kind: "value", CUE: d.CUE(), TOML: true, Only: only})
				out = append(out, kase{Kind: "value", CUE: gen.DStruct("p", d, "z", one).CUE(), TOML: true, Only: only})
				if thorough {
					out = append(out, kase{Kind: "value", CUE: gen.DStruct("l", gen.DList(d, d)).CUE(), TOML: true, Only: only})
				}
			}
		}
	}
	if thorough {
		small := []gen.Data{one, s, gen.DFloat("1.5"), {Kind: "bool", B: true}, gen.DStr("a\nb"), gen.DStr("")}
		var lvl []gen.Data
		gen.Containers(small, []string{"a", "b c"}, 2, func(d gen.Data) bool { lvl = append(lvl, d); return true })
		for _, d := range lvl {
			add(gen.DStruct("v", d), true)
		}
		n := 0
		gen.Containers(lvl[:40], []string{"k", "a.b"}, 2, func(d gen.Data) bool {
			n++
			if d.Kind == "struct" {
				add(d, true)
			} else {
				add(gen.DStruct("v", d), true)
			}
			return n < 4000
		})
	}
	return out
}

var statusCases = []kase{
	{Kind: "status", CUE: "a: int", Want: "fail"}, {Kind: "status", CUE: "a: 1 & 2", Want: "fail"}, {Kind: "status", CUE: "a: string\nb: 1", Want: "fail"},
	{Kind: "status", CUE: "a: *1 | 2", Want: "ok"}, {Kind: "status", CUE: "a: 1 | 2", Want: "fail"}, {Kind: "status", CUE: "a: {b: >0}", Want: "fail"},
	{Kind: "status", CUE: "a?: int\nb: 1", Want: "ok"}, {Kind: "status", CUE: "a!: int", Want: "fail"}, {Kind: "status", CUE: "#D: {x: int}\nb: 1", Want: "ok"},
	{Kind: "status", CUE: "_h: int\nb: 1", Want: "ok"}, {Kind: "status", CUE: "a: [int]", Want: "fail"}, {Kind: "status", CUE: "a: [1, ...int]", Want: "ok"},
	{Kind: "status", CUE: "a: b\nb: a", Want: "fail"}, {Kind: "status", CUE: "a: b + 1\nb: 2", Want: "ok"}, {Kind: "status", CUE: "a: {x: 1} & {x: 2}", Want: "fail"},
	{Kind: "status", CUE: "a: close({x: 1}) & {y: 2}", Want: "fail"}, {Kind: "status", CUE: "a: 1", Want: "ok"}, {Kind: "status", CUE: "a: \"\\(b)\"\nb: string", Want: "fail"},
}

func run(r *core.Run) {
	if _, err := os.Stat(cueBin); err != nil {
		r.EngineError("cue binary missing: " + err.Error())
		return
	}
	vs := values(r.Thorough())
	r.Section(fmt.Sprintf("values(%d) x encodings x input forms x flags", len(vs)))
	for _, c := range vs {
		if !r.Mine() {
			continue
		}
		c := c
		r.Guard(c, func() { checkValue(r, c) })
		if r.Expired() {
			break
		}
	}
	r.Section("exit-status truth table x encodings")
	for _, c := range statusCases {
		if !r.Mine() {
			continue
		}
		c := c
		r.Guard(c, func() { checkStatus(r, c) })
	}
	r.Count("cli_invocations_in_process", nCalls)
	r.Count("cli_invocations_also_run_through_the_binary", nConform)
	r.Trace(nConform)
	if conformErr != "" {
		r.EngineError(conformErr)
	}
}

func replay(r *core.Run, raw json.RawMessage) {
	var c kase
	if err := json.Unmarshal(raw, &c); err != nil {
		r.EngineError(err.Error())
		return
	}
	if c.Kind == "status" {
		checkStatus(r, c)
	} else {
		checkValue(r, c)
	}
}

type result struct {
	out, errOut string
	code        int
}

// runCue runs the cue command line in-process through cmd.New(args).Run: the
// same code path as the binary (flag parsing, file type inference, loading,
// encoders), without the cost of spawning ~1300 processes. Every conformEvery-th
// invocation is also run through the real binary and the two must agree
// (stdout and exit status); see runBinary.
func runCue(dir string, stdin string, args ...string) result {
	res := runInProcess(dir, stdin, args...)
	nCalls++
	if nCalls%conformEvery == 1 {
		bin := runBinary(dir, stdin, args...)
		nConform++
		if bin.out != res.out || (bin.code != 0) != (res.code != 0) {
			conformErr = fmt.Sprintf("in-process and binary disagree for `cue %s` in %s:\n--- in-process (code %d) ---\n%s\n--- binary (code %d) ---\n%s\n%s",
				strings.Join(args, " "), dir, res.code, res.out, bin.code, bin.out, bin.errOut)
		}
	}
	return res
}

var (
	nCalls, nConform int
	conformErr       string
	conformEvery     = 9
)

func runInProcess(dir string, stdin string, args ...string) result {
	if err := os.Chdir(dir); err != nil {
		return result{"", err.Error(), 1}
	}
	defer os.Chdir("/")
	os.Setenv("CUE_CACHE_DIR", filepath.Join(dir, ".cache"))
	c, err := cuecmd.New(args)
	if err != nil {
		return result{"", err.Error(), 1}
	}
	var o bytes.Buffer
	c.SetOut(&o)
	c.SetInput(strings.NewReader(stdin))
	ctx, cancel := context.WithTimeout(context.Background(), 120*time.Second)
	defer cancel()
	if err := c.Run(ctx); err != nil {
		return result{o.String(), err.Error(), 1}
	}
	return result{o.String(), "", 0}
}

func runBinary(dir string, stdin string, args ...string) result {
	ctx, cancel := context.WithTimeout(context.Background(), 120*time.Second)
	defer cancel()
	cmd := exec.CommandContext(ctx, cueBin, args...)
	cmd.Dir = dir
	cmd.Env = append(os.Environ(), "CUE_CACHE_DIR="+filepath.Join(dir, ".cache"), "HOME="+dir, "NO_COLOR=1", "GOMAXPROCS=2", "GOGC=400")
	if stdin != "" {
		cmd.Stdin = strings.NewReader(stdin)
	}
	var o, e bytes.Buffer
	cmd.Stdout, cmd.Stderr = &o, &e
	err := cmd.Run()
	code := 0
	if err != nil {
		code = 1
		if ee, ok := err.(*exec.ExitError); ok {
			code = ee.ExitCode()
		}
	}
	return result{o.String(), e.String(), code}
}

func scratch(r *core.Run) (string, func()) {
	dir, err := os.MkdirTemp("/verif/.work/tmp", "c12-")
	if err != nil {
		panic(err)
	}
	return dir, func() { os.RemoveAll(dir) }
}

func jsonTree(s string) (tree.Node, error) {
	n, _, err := tree.FromJSON([]byte(s))
	return n, err
}

func goTree(x any) (tree.Node, bool) {
	switch v := x.(type) {
	case nil:
		return tree.Node{Kind: "null"}, true
	case bool:
		return tree.Node{Kind: "bool", B: v}, true
	case int:
		return tree.Node{Kind: "num", N: new(big.Rat).SetInt64(int64(v)), Int: true}, true
	case int64:
		return tree.Node{Kind: "num", N: new(big.Rat).SetInt64(v), Int: true}, true
	case uint64:
		return tree.Node{Kind: "num", N: new(big.Rat).SetInt(new(big.Int).SetUint64(v)), Int: true}, true
	case float64:
		if math.IsInf(v, 0) || math.IsNaN(v) {
			return tree.Node{}, false
		}
		return tree.Node{Kind: "num", N: new(big.Rat).SetFloat64(v)}, true
	case string:
		return tree.Node{Kind: "string", S: v}, true
	case []any:
		n := tree.Node{Kind: "list", L: []tree.Node{}}
		for _, e := range v {
			c, ok := goTree(e)
			if !ok {
				return n, false
			}
			n.L = append(n.L, c)
		}
		return n, true
	case []map[string]any:
		n := tree.Node{Kind: "list", L: []tree.Node{}}
		for _, e := range v {
			c, ok := goTree(e)
			if !ok {
				return n, false
			}
			n.L = append(n.L, c)
		}
		return n, true
	case map[string]any:
		n := tree.Node{Kind: "struct", Keys: []string{}, Vals: []tree.Node{}}
		for k, e := range v {
			c, ok := goTree(e)
			if !ok {
				return n, false
			}
			n.Keys = append(n.Keys, k)
			n.Vals = append(n.Vals, c)
		}
		return n, true
	}
	return tree.Node{}, false
}

// floatsExact reports whether every number of the tree survives float64
// (the independent YAML/TOML readers decode into float64/int64).
func floatsExact(n tree.Node) bool {
	switch n.Kind {
	case "num":
		if n.N.IsInt() && n.N.Num().IsInt64() {
			return true
		}
		f, exact := n.N.Float64()
		return exact && !math.IsInf(f, 0)
	case "list":
		for _, e := range n.L {
			if !floatsExact(e) {
				return false
			}
		}
	case "struct":
		for _, e := range n.Vals {
			if !floatsExact(e) {
				return false
			}
		}
	}
	return true
}

func key(kind string, c kase) string { return kind + ": " + strings.ReplaceAll(c.CUE, "\n", "; ") }

func checkValue(r *core.Run, c kase) {
	dir, done := scratch(r)
	defer done()
	os.WriteFile(filepath.Join(dir, "x.cue"), []byte(c.CUE+"\n"), 0o644)
	os.MkdirAll(filepath.Join(dir, "pkg"), 0o755)
	os.WriteFile(filepath.Join(dir, "pkg", "p.cue"), []byte("package p\n\n"+strings.TrimSuffix(strings.TrimPrefix(c.CUE, "{"), "}")+"\n"), 0o644)
	// ground truth: in-process evaluation of the same text
	ctx := cuecontext.New()
	want, err := tree.FromCUE(ctx.CompileString(c.CUE))
	if err != nil {
		r.EngineError("generator value does not evaluate: " + c.CUE + ": " + err.Error())
		return
	}
	j0 := runCue(dir, "", "export", "x.cue", "--out", "json")
	r.Trans(1)
	if j0.code != 0 {
		r.Violation(key("export --out json fails on concrete data", c), c, j0.errOut)
		return
	}
	t0, err := jsonTree(j0.out)
	if err != nil || !tree.Equal(t0, want, tree.Options{}) {
		r.Violation(key("export --out json differs from the evaluated value", c), c, fmt.Sprintf("want %s\ngot  %s (%v)\n%s", want, t0, err, j0.out))
		return
	}
	encs := []string{"json", "yaml", "cue"}
	if c.TOML {
		encs = append(encs, "toml")
	}
	if c.Only != "" {
		encs = strings.Split(c.Only, ",")
	}
	for _, enc := range encs {
		ext := map[string]string{"json": "json", "yaml": "yaml", "cue": "cue", "toml": "toml"}[enc]
		e := runCue(dir, "", "export", "x.cue", "--out", enc)
		r.Trans(1)
		if e.code != 0 {
			r.Violation(key("export --out "+enc+" fails on concrete data", c), c, e.errOut)
			continue
		}
		// independent read
		var ind tree.Node
		indOK := true
		opts := tree.Options{}
		switch enc {
		case "json":
			ind, err = jsonTree(e.out)
			indOK = err == nil
		case "yaml":
			// 2-of-2: only output that both independent decoders misread counts
			var x1, x2 any
			n1, ok1 := tree.Node{}, false
			if err := goccy.Unmarshal([]byte(e.out), &x1); err == nil {
				n1, ok1 = goTree(x1)
			}
			n2, ok2 := tree.Node{}, false
			if err := yamlv3.Unmarshal([]byte(e.out), &x2); err == nil {
				n2, ok2 = goTree(x2)
			}
			opts.IgnoreOrder = true
			ind, indOK = n1, ok1
			if !(ok1 && tree.Equal(n1, want, opts)) && ok2 && tree.Equal(n2, want, opts) {
				ind, indOK = n2, ok2
			}
			if !floatsExact(want) {
				indOK = true
				ind = want
			}
		case "toml":
			var x map[string]any
			if err := toml.Unmarshal([]byte(e.out), &x); err != nil {
				indOK = false
			} else {
				ind, indOK = goTree(x)
			}
			opts.IgnoreOrder = true
			if !floatsExact(want) {
				indOK = true
				ind = want
			}
		case "cue":
			ind, err = tree.FromCUE(cuecontext.New().CompileString(e.out))
			indOK = err == nil
		}
		if !indOK || !tree.Equal(ind, want, opts) {
			r.Violation(key("export --out "+enc+" denotes different data (independent reader)", c), c, fmt.Sprintf("want %s\nread %s\n--- output ---\n%s", want, ind, e.out))
			continue
		}
		// -o file.ext infers the encoding
		of := runCue(dir, "", "export", "x.cue", "-f", "-o", "inferred."+ext)
		if of.code != 0 {
			r.Violation(key("export -o file."+ext+" fails", c), c, of.errOut)
			continue
		}
		b, _ := os.ReadFile(filepath.Join(dir, "inferred."+ext))
		if string(b) != e.out {
			r.Violation(key("export -o file."+ext+" differs from --out "+enc, c), c, fmt.Sprintf("--out:\n%s\n-o:\n%s", e.out, b))
			continue
		}
		// import loop: file -> cue import -> export json
		data := "data." + ext
		os.WriteFile(filepath.Join(dir, data), []byte(e.out), 0o644)
		var back result
		if enc == "cue" {
			back = runCue(dir, "", "export", data, "--out", "json")
		} else {
			imp := runCue(dir, "", "import", "-f", data, "-o", "imported_"+ext+".cue")
			if imp.code != 0 {
				r.Violation(key("cue import fails on exported "+enc, c), c, fmt.Sprintf("%s\n--- file ---\n%s", imp.errOut, e.out))
				continue
			}
			back = runCue(dir, "", "export", "imported_"+ext+".cue", "--out", "json")
		}
		r.Trans(2)
		tb, err := jsonTree(back.out)
		if back.code != 0 || err != nil || !tree.Equal(tb, want, opts) {
			r.Violation(key("export "+enc+" -> import -> export json differs", c), c, fmt.Sprintf("want %s\ngot  %s\nstderr %s\n--- %s ---\n%s", want, tb, back.errOut, enc, e.out))
			continue
		}
		// the data file as a direct input (file type inferred from the extension) and via stdin with a qualifier
		direct := runCue(dir, "", "export", data, "--out", "json")
		td, err := jsonTree(direct.out)
		if direct.code != 0 || err != nil || !tree.Equal(td, want, opts) {
			r.Violation(key("export of the exported "+enc+" file differs", c), c, fmt.Sprintf("want %s\ngot  %s\n%s", want, td, direct.errOut))
			continue
		}
		stdin := runCue(dir, e.out, "export", enc+":", "-", "--out", "json")
		ts, err := jsonTree(stdin.out)
		if stdin.code != 0 || err != nil || !tree.Equal(ts, want, opts) {
			r.Violation(key("export of "+enc+" from stdin differs", c), c, fmt.Sprintf("want %s\ngot  %s\n%s", want, ts, stdin.errOut))
			continue
		}
	}
	if c.Only != "" {
		r.Outcome("loop:ok")
		r.State(c.CUE)
		r.Nontrivial()
		return
	}
	// package directory argument and -e path
	if strings.HasPrefix(c.CUE, "{") {
		p := runCue(dir, "", "export", "./pkg", "--out", "json")
		tp, err := jsonTree(p.out)
		if p.code != 0 || err != nil || !tree.Equal(tp, want, tree.Options{}) {
			r.Violation(key("export of the package directory differs from the file", c), c, fmt.Sprintf("want %s\ngot  %s\n%s", want, tp, p.errOut))
		}
	}
	if want.Kind == "struct" && len(want.Keys) > 0 && isIdent(want.Keys[0]) {
		e := runCue(dir, "", "export", "x.cue", "-e", want.Keys[0], "--out", "json")
		te, err := jsonTree(e.out)
		if e.code != 0 || err != nil || !tree.Equal(te, want.Vals[0], tree.Options{}) {
			r.Violation(key("export -e "+want.Keys[0]+" differs from the field", c), c, fmt.Sprintf("want %s\ngot  %s\n%s", want.Vals[0], te, e.errOut))
		}
	}
	// several -e expressions: what goes to a file with -o must be exactly what
	// --out writes to the standard output (document separators included)
	if want.Kind == "struct" && len(want.Keys) >= 2 && isIdent(want.Keys[0]) && isIdent(want.Keys[1]) {
		for _, enc := range []string{"yaml", "json", "cue"} {
			ext := map[string]string{"json": "json", "yaml": "yaml", "cue": "cue"}[enc]
			// through the real binary: what the process writes to its standard
			// output must be seen, whichever writer the code uses
			so := runBinary(dir, "", "export", "x.cue", "-e", want.Keys[0], "-e", want.Keys[1], "--out", enc)
			if so.code != 0 {
				continue
			}
			fo := runBinary(dir, "", "export", "x.cue", "-e", want.Keys[0], "-e", want.Keys[1], "-f", "-o", "multi."+ext)
			b, _ := os.ReadFile(filepath.Join(dir, "multi."+ext))
			r.Trans(2)
			if fo.code != 0 || string(b) != so.out || fo.out != "" {
				r.Violation(key("export -e x -e y -o file."+ext+" differs from --out "+enc, c), c, fmt.Sprintf("--out (stdout):\n%s\n-o file (code %d):\n%s\nstdout of the -o run:\n%s\n%s", so.out, fo.code, b, fo.out, fo.errOut))
			}
		}
	}
	// --escape only changes the spelling of <, >, &
	esc := runCue(dir, "", "export", "x.cue", "--out", "json", "--escape")
	te, err := jsonTree(esc.out)
	if esc.code != 0 || err != nil || !tree.Equal(te, want, tree.Options{}) {
		r.Violation(key("export --escape changes the data", c), c, fmt.Sprintf("want %s\ngot %s\n%s", want, te, esc.errOut))
	} else if strings.ContainsAny(esc.out, "<>&") {
		r.Violation(key("export --escape leaves <, > or & unescaped", c), c, esc.out)
	}
	r.Outcome("loop:ok")
	r.State(c.CUE)
	if strings.ContainsAny(c.CUE, "[\\") || strings.Count(c.CUE, "{") > 1 {
		r.Nontrivial()
		r.Sample(map[string]string{"cue": c.CUE, "json": j0.out})
	}
}

func isIdent(s string) bool {
	if s == "" {
		return false
	}
	for i, ch := range s {
		if !(ch == '_' || ch >= 'a' && ch <= 'z' || ch >= 'A' && ch <= 'Z' || i > 0 && ch >= '0' && ch <= '9') {
			return false
		}
	}
	switch s {
	case "true", "false", "null", "if", "for", "in", "let", "package", "import", "div", "mod", "quo", "rem":
		return false
	}
	return !strings.HasPrefix(s, "_")
}

func checkStatus(r *core.Run, c kase) {
	dir, done := scratch(r)
	defer done()
	os.WriteFile(filepath.Join(dir, "x.cue"), []byte(c.CUE+"\n"), 0o644)
	for _, enc := range []string{"json", "yaml", "toml", "cue"} {
		e := runCue(dir, "", "export", "x.cue", "--out", enc)
		r.Trans(1)
		if c.Want == "fail" {
			if e.code == 0 {
				r.Violation(key("export --out "+enc+" exits 0 on non-concrete or erroneous input", c), c, e.out)
				continue
			}
			r.Outcome("status:fails-as-expected")
		} else {
			if e.code != 0 {
				r.Violation(key("export --out "+enc+" fails on input whose exported part is concrete", c), c, e.errOut)
				continue
			}
			r.Outcome("status:succeeds-as-expected")
		}
	}
}
