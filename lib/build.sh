#!/bin/bash
# build.sh <ID>: (re)build the harness binary that serves property ID from the
# current /repo working tree; prints the binary path.
set -eu
. /verif/lib/env.sh
ID="$1"
exec 9>"$WORK/build.lock"; flock 9
case "$ID" in
  C18) KIND=test18;;
  *) KIND=plain;;
esac
case "$KIND" in
  plain)
    /verif/lib/gen_overlay.py "$WORK/overlay.json" >&2
    (cd /repo && go build -overlay "$WORK/overlay.json" -o "$WORK/bin/verifh" ./internal/verif/cmd/verifh) >&2
    if [ "$ID" = C12 ] || [ "${VERIF_BUILD_CUE:-}" = 1 ]; then
      (cd /repo && go build -o "$WORK/bin/cue" ./cmd/cue) >&2
    fi
    echo "$WORK/bin/verifh";;
  test18)
    /verif/lib/gen_overlay.py "$WORK/overlay.json" >&2
    (cd /repo && go test -c -vet=off -overlay "$WORK/overlay.json" -o "$WORK/bin/c18.test" ./internal/verif/t/c18) >&2
    echo "$WORK/bin/c18.test";;
esac
