package main

import (
	"fmt"
	"os"

	"cuelang.org/go/cue/cuecontext"
)

func main() {
	ctx := cuecontext.New()
	for _, src := range os.Args[1:] {
		v := ctx.CompileString(src)
		var x any
		err := v.Decode(&x)
		i, ierr := v.Int64()
		fmt.Printf("== %s\n  Decode=%T %v err=%v  Int64=%v err=%v\n", src, x, x, err, i, ierr)
	}
}
