// Package c18: workflow tasks run once, after everything they depend on, under
// every completion order.
//
// E4 quiescence explorer on the real tools/flow Controller inside a
// testing/synctest bubble: every task DAG on <=n tasks x dependency style x
// every completion order x <=1 injected failure. At each quiescent state
// (controller blocked in its select, every dispatched runner blocked on its
// gate) exactly one pending event is delivered.
package c18

import (
	"context"
	"encoding/json"
	"errors"
	"fmt"
	"os"
	"runtime"
	"sort"
	"strings"
	"sync"
	"testing"
	"testing/synctest"

	"cuelang.org/go/cue"
	"cuelang.org/go/cue/cuecontext"
	"cuelang.org/go/internal/verif/canon"
	"cuelang.org/go/internal/verif/core"
	"cuelang.org/go/tools/flow"
)

var curT *testing.T

// TestDriver is the entry point: `c18.test -test.run ^TestDriver$ -- run C18 ...`.
func TestDriver(t *testing.T) {
	args := []string{}
	for i, a := range os.Args {
		if a == "--" {
			args = os.Args[i+1:]
			break
		}
	}
	if len(args) == 0 {
		t.Skip("driver test: needs arguments after --")
	}
	curT = t
	core.SelfArgsPrefix = []string{"-test.run", "^TestDriver$", "-test.timeout", "0", "--"}
	if code := core.MainArgs(args); code != 0 {
		os.Exit(code)
	}
}

func init() {
	core.Register(&core.Prop{
		ID: "C18",
		Rule: "E4 quiescence exploration of the real flow.Controller in a synctest bubble: every DAG on <=5 tasks (thorough: also 6 tasks with >=9 edges) given as an edge set on ordered pairs x 5 dependency styles (output-field reference, task-root reference, through an intermediate non-task field, $after list, interpolation) + mixed styles, dynamic tasks (created by a comprehension once an earlier task has filled a value), 2- and 3-cycles; every completion order; <=1 injected failure (error / ErrAbort) or context cancellation at every position. " +
			"Non-trivial = executions of workflows with >=1 edge and >=2 distinct completion orders.",
		Assumptions: []string{"testing/synctest.Wait gives exact quiescence: the controller is blocked in its select and every dispatched runner on its private gate", "ground truth for dependencies = the generator's edge set (transitively closed)"},
		Run:         run, Replay: replay,
		RequireOutcomes: []string{"completed", "failure-stops-dependants", "cycle-reported"},
		BudgetQuick:     200, BudgetThorough: 1500,
		StallSeconds: 300,
	})
}

type kase struct {
	N        int      `json:"n"`
	Edges    [][2]int `json:"edges"` // [dep, dependant]
	Style    string   `json:"style"`
	Extra    string   `json:"extra,omitempty"` // dynamic | cycle
	Order    []int    `json:"order,omitempty"` // choice sequence (replay)
	FailAt   int      `json:"fail_at"`         // -1 none; index in the event sequence
	FailKind string   `json:"fail_kind,omitempty"`
	// dynamic-other: the task whose list creates the dynamic task and the
	// (different) task it depends on
	DynGen int `json:"dyn_gen,omitempty"`
	DynDep int `json:"dyn_dep,omitempty"`
}

var styles = []string{"field", "root", "mid", "after", "interp"}

// program renders the workflow.
func program(c kase) string {
	var sb strings.Builder
	deps := map[int][]int{}
	for _, e := range c.Edges {
		deps[e[1]] = append(deps[e[1]], e[0])
	}
	for i := 0; i < c.N; i++ {
		fmt.Fprintf(&sb, "t%d: {\n\t$id: \"t\"\n\tout: string\n", i)
		for k, d := range deps[i] {
			st := c.Style
			if st == "mixed" {
				st = styles[(i+k)%len(styles)]
			}
			switch st {
			case "field":
				fmt.Fprintf(&sb, "\tin%d: t%d.out\n", d, d)
			case "root":
				fmt.Fprintf(&sb, "\tdep%d: t%d\n", d, d)
			case "mid":
				fmt.Fprintf(&sb, "\tin%d: mid%d\n", d, d)
			case "after":
				fmt.Fprintf(&sb, "\t$after%d: [t%d]\n", d, d)
			case "interp":
				fmt.Fprintf(&sb, "\tin%d: \"x-\\(t%d.out)\"\n", d, d)
			}
		}
		sb.WriteString("}\n")
	}
	for i := 0; i < c.N; i++ {
		fmt.Fprintf(&sb, "mid%d: t%d.out\n", i, i)
	}
	switch c.Extra {
	case "dynamic":
		// task that exists only after t0 completed; depends on t0
		sb.WriteString("if t0.out != _|_ {\n\tdyn: {\n\t\t$id: \"t\"\n\t\tout: string\n\t\tin0: t0.out\n\t}\n}\n")
	case "dynamic-other":
		// task that comes into existence once t0 has filled its list but
		// depends on t1 only (the comprehension variable is unused)
		fmt.Fprintf(&sb, "for y in t%d.list {\n\tdynx: {\n\t\t$id: \"t\"\n\t\tout: string\n\t\tin%d: t%d.out\n\t}\n}\nt%d: list: [...string]\n", c.DynGen, c.DynDep, c.DynDep, c.DynGen)
	case "dynamic-list":
		sb.WriteString("for i, x in t0.list {\n\t\"dyn\\(i)\": {\n\t\t$id: \"t\"\n\t\tout: string\n\t\tin0: x\n\t}\n}\nt0: list: [...string]\n")
	}
	return sb.String()
}

type event struct {
	task  string
	kind  string // start | finish
	seq   int
	input map[string]string
}

type runnerState struct {
	name    string
	gate    chan string // "ok" | "fail" | "abort" | "exit"
	started int
	done    bool
}

type execution struct {
	events          []string
	starts          map[string]int
	finished        map[string]bool
	pendingAtChoice [][]string
	runErr          error
	final           string
	viol            string
	inputsAtStart   map[string]map[string]string
}

// execute runs the workflow once inside a bubble following the choice
// sequence order (indices into the sorted pending list); beyond the sequence
// the first pending task is chosen. failAt injects a failure at that event.
func execute(c kase, order []int) *execution {
	ex := &execution{starts: map[string]int{}, finished: map[string]bool{}, inputsAtStart: map[string]map[string]string{}}
	src := program(c)
	synctest.Test(curT, func(t *testing.T) {
		ctx := cuecontext.New()
		v := ctx.CompileString(src)
		if err := v.Err(); err != nil {
			ex.viol = "generator: " + err.Error()
			return
		}
		runners := map[string]*runnerState{}
		exitAll := false
		var mu sync.Mutex // runners start concurrently: guards the harness's own bookkeeping
		taskFunc := func(tv cue.Value) (flow.Runner, error) {
			if id, err := tv.LookupPath(cue.MakePath(cue.Str("$id"))).String(); err != nil || id != "t" {
				return nil, nil
			}
			return flow.RunnerFunc(func(ft *flow.Task) error {
				name := ft.Path().String()
				mu.Lock()
				rs := runners[name]
				if rs == nil {
					rs = &runnerState{name: name, gate: make(chan string)}
					runners[name] = rs
				}
				rs.started++
				ex.starts[name]++
				ex.events = append(ex.events, "start:"+name)
				// inputs visible at start
				in := map[string]string{}
				it, _ := ft.Value().Fields()
				for it != nil && it.Next() {
					sel := it.Selector().String()
					if strings.HasPrefix(sel, "in") {
						s, err := it.Value().String()
						if err != nil {
							s = "<not concrete>"
						}
						in[sel] = s
					}
					if strings.HasPrefix(sel, "dep") {
						s, err := it.Value().LookupPath(cue.ParsePath("out")).String()
						if err != nil {
							s = "<not concrete>"
						}
						in[sel] = s
					}
				}
				ex.inputsAtStart[name] = in
				quit := exitAll
				mu.Unlock()
				if quit {
					runtime.Goexit()
				}
				msg := <-rs.gate
				mu.Lock()
				defer mu.Unlock()
				switch msg {
				case "fail":
					rs.done = true
					return errors.New("boom")
				case "abort":
					rs.done = true
					return flow.ErrAbort
				case "exit":
					runtime.Goexit()
				}
				rs.done = true
				ex.finished[name] = true
				ex.events = append(ex.events, "finish:"+name)
				res := map[string]any{"out": "r-" + name}
				if (name == "t0" && c.Extra == "dynamic-list") || (c.Extra == "dynamic-other" && name == fmt.Sprintf("t%d", c.DynGen)) {
					res["list"] = []string{"a", "b"}
				}
				ft.Fill(res)
				return nil
			}), nil
		}
		ctl := flow.New(nil, v, taskFunc)
		runCtx, cancel := context.WithCancel(context.Background())
		defer cancel()
		doneCh := make(chan error, 1)
		go func() { doneCh <- ctl.Run(runCtx) }()
		step := 0
		for {
			synctest.Wait()
			select {
			case err := <-doneCh:
				ex.runErr = err
				// release leaked runners so the bubble can end
				mu.Lock()
				exitAll = true
				var leaked []*runnerState
				for _, rs := range runners {
					leaked = append(leaked, rs)
				}
				mu.Unlock()
				for _, rs := range leaked {
					if !rs.done && rs.started > 0 {
						select {
						case rs.gate <- "exit":
						default:
						}
					}
				}
				synctest.Wait()
				if err == nil {
					ex.final = canon.New(ctx, canon.Opts{}).Canon(ctl.Value())
				}
				return
			default:
			}
			var pending []string
			mu.Lock()
			for n, rs := range runners {
				if rs.started > 0 && !rs.done {
					pending = append(pending, n)
				}
			}
			mu.Unlock()
			sort.Strings(pending)
			if len(pending) == 0 {
				ex.viol = "quiescent with nothing pending and Run not returned (hang)"
				cancel()
				synctest.Wait()
				<-doneCh
				return
			}
			ex.pendingAtChoice = append(ex.pendingAtChoice, pending)
			choice := 0
			if step < len(order) {
				choice = order[step]
			}
			if choice >= len(pending) {
				ex.viol = fmt.Sprintf("engine: choice %d out of range at step %d (pending %v)", choice, step, pending)
				choice = 0
			}
			msg := "ok"
			if c.FailAt == step {
				switch c.FailKind {
				case "cancel":
					cancel()
					step++
					continue
				case "abort":
					msg = "abort"
				default:
					msg = "fail"
				}
				ex.events = append(ex.events, c.FailKind+":"+pending[choice])
			}
			mu.Lock()
			gate := runners[pending[choice]].gate
			mu.Unlock()
			gate <- msg
			step++
		}
	})
	return ex
}

func closure(n int, edges [][2]int) map[int]map[int]bool {
	dep := map[int]map[int]bool{}
	for i := 0; i < n; i++ {
		dep[i] = map[int]bool{}
	}
	for _, e := range edges {
		dep[e[1]][e[0]] = true
	}
	for k := 0; k < n; k++ {
		for i := 0; i < n; i++ {
			for j := 0; j < n; j++ {
				if dep[i][k] && dep[k][j] {
					dep[i][j] = true
				}
			}
		}
	}
	return dep
}

func keyOf(kind string, c kase) string {
	return fmt.Sprintf("%s: n=%d edges=%v style=%s %s", kind, c.N, c.Edges, c.Style, c.Extra)
}

// explore runs every completion order of one workflow (with the given failure
// injection) and checks every execution.
func explore(r *core.Run, c kase) {
	dep := closure(c.N, c.Edges)
	finals := map[string]bool{}
	nExec := 0
	var rec func(prefix []int)
	rec = func(prefix []int) {
		ex := execute(c, prefix)
		nExec++
		r.Trans(len(ex.events))
		r.Trace(1)
		c2 := c
		c2.Order = append([]int{}, prefix...)
		if ex.viol != "" {
			if strings.HasPrefix(ex.viol, "engine") || strings.HasPrefix(ex.viol, "generator") {
				r.EngineError(ex.viol)
			} else {
				r.Violation(keyOf(ex.viol, c), c2, strings.Join(ex.events, " "))
			}
			return
		}
		if msg := checkExecution(c, dep, ex); msg != "" {
			r.Violation(keyOf(msg, c), c2, fmt.Sprintf("events: %s\nrun error: %v\nprogram:\n%s", strings.Join(ex.events, " "), ex.runErr, program(c)))
			return
		}
		if ex.runErr == nil && c.FailAt < 0 {
			finals[ex.final] = true
		}
		for i := len(prefix); i < len(ex.pendingAtChoice); i++ {
			for alt := 1; alt < len(ex.pendingAtChoice[i]); alt++ {
				p := make([]int, i+1)
				copy(p, prefix)
				p[i] = alt
				rec(p)
			}
		}
	}
	rec(nil)
	if len(finals) > 1 {
		var fs []string
		for f := range finals {
			fs = append(fs, f)
		}
		sort.Strings(fs)
		r.Violation(keyOf("final configuration depends on the completion order", c), c, strings.Join(fs, "\n"))
		return
	}
	r.Count("executions", nExec)
	if len(c.Edges) > 0 && nExec >= 2 {
		r.Nontrivial()
		r.Sample(map[string]any{"tasks": c.N, "edges": c.Edges, "style": c.Style, "extra": c.Extra, "fail_at": c.FailAt, "completion_orders": nExec})
	}
	r.State(program(c) + fmt.Sprint(c.FailAt, c.FailKind))
}

func checkExecution(c kase, dep map[int]map[int]bool, ex *execution) string {
	// every task starts at most once
	for n, k := range ex.starts {
		if k > 1 {
			return "task " + n + " started more than once"
		}
	}
	// happens-before: at each start, every dependency has finished ok
	finished := map[string]bool{}
	failed := false
	for _, e := range ex.events {
		kind, name, _ := strings.Cut(e, ":")
		switch kind {
		case "finish":
			finished[name] = true
		case "fail", "abort", "cancel":
			failed = true
		case "start":
			if failed {
				// a runner dispatched in the same round as the failing one may
				// already be running; only tasks whose dependency failed must not start
			}
			var idx int
			if _, err := fmt.Sscanf(name, "t%d", &idx); err == nil && idx < c.N {
				for d := range dep[idx] {
					dn := fmt.Sprintf("t%d", d)
					if !finished[dn] {
						return fmt.Sprintf("task %s started before its dependency %s completed", name, dn)
					}
				}
				// results visible
				for sel, val := range ex.inputsAtStart[name] {
					var d int
					if _, err := fmt.Sscanf(sel, "in%d", &d); err == nil {
						want := fmt.Sprintf("r-t%d", d)
						if !strings.Contains(val, want) {
							return fmt.Sprintf("task %s started without seeing the result of t%d (%s=%q)", name, d, sel, val)
						}
					}
					if _, err := fmt.Sscanf(sel, "dep%d", &d); err == nil {
						if val != fmt.Sprintf("r-t%d", d) {
							return fmt.Sprintf("task %s started without seeing the result of t%d (%s.out=%q)", name, d, sel, val)
						}
					}
				}
			}
			if strings.HasPrefix(name, "dyn") && name != "dynx" && !finished["t0"] {
				return "dynamic task " + name + " started before t0 completed"
			}
			if name == "dynx" {
				g, d := fmt.Sprintf("t%d", c.DynGen), fmt.Sprintf("t%d", c.DynDep)
				if !finished[g] {
					return "dynamic task dynx started before its generator " + g + " completed"
				}
				if !finished[d] {
					return "dynamic task dynx started before its dependency " + d + " completed"
				}
				if val := ex.inputsAtStart[name][fmt.Sprintf("in%d", c.DynDep)]; !strings.Contains(val, "r-"+d) {
					return fmt.Sprintf("dynamic task dynx started without seeing the result of %s (%q)", d, val)
				}
			}
		}
	}
	if c.FailAt < 0 {
		if ex.runErr != nil {
			return "Run returns an error without any failure: " + ex.runErr.Error()
		}
		for i := 0; i < c.N; i++ {
			if ex.starts[fmt.Sprintf("t%d", i)] != 1 {
				return fmt.Sprintf("task t%d did not run in a failure-free execution", i)
			}
		}
		switch c.Extra {
		case "dynamic":
			if ex.starts["dyn"] != 1 {
				return "dynamic task did not run"
			}
		case "dynamic-other":
			if ex.starts["dynx"] != 1 {
				return fmt.Sprintf("dynamic task dynx (created after t%d, depending on t%d) ran %d times", c.DynGen, c.DynDep, ex.starts["dynx"])
			}
		case "dynamic-list":
			if ex.starts["dyn0"] != 1 || ex.starts["dyn1"] != 1 {
				return "dynamic list tasks did not run"
			}
		}
		// final value: every task's result is present
		for i := 0; i < c.N; i++ {
			if !strings.Contains(ex.final, fmt.Sprintf("out:\"r-t%d\"", i)) {
				return fmt.Sprintf("final configuration lacks the result of t%d", i)
			}
		}
	} else if failed {
		if ex.runErr == nil && c.FailKind != "cancel" {
			return "Run returns nil although a task failed"
		}
		// no dependant of the failed task may have started
		var failedName string
		for _, e := range ex.events {
			kind, name, _ := strings.Cut(e, ":")
			if kind == "fail" || kind == "abort" {
				failedName = name
			}
		}
		var fi int
		if _, err := fmt.Sscanf(failedName, "t%d", &fi); err == nil {
			for i := 0; i < c.N; i++ {
				if dep[i][fi] && ex.starts[fmt.Sprintf("t%d", i)] > 0 {
					return fmt.Sprintf("task t%d started although its dependency %s failed", i, failedName)
				}
			}
		}
	}
	return ""
}

func dags(n int, fn func(edges [][2]int) bool) {
	var pairs [][2]int
	for i := 0; i < n; i++ {
		for j := i + 1; j < n; j++ {
			pairs = append(pairs, [2]int{i, j})
		}
	}
	for mask := 0; mask < 1<<len(pairs); mask++ {
		var e [][2]int
		for k, p := range pairs {
			if mask&(1<<k) != 0 {
				e = append(e, p)
			}
		}
		if !fn(e) {
			return
		}
	}
}

func run(r *core.Run) {
	maxN := 5
	do := func(c kase) bool {
		if !r.Mine() {
			return !r.Expired()
		}
		r.Guard(c, func() {
			explore(r, c)
			switch {
			case c.Extra == "cycle":
			case c.FailAt >= 0:
				r.Outcome("failure-stops-dependants")
			default:
				r.Outcome("completed")
			}
		})
		return true
	}
	for n := 1; n <= maxN; n++ {
		r.Section(fmt.Sprintf("DAGs on %d tasks x styles, failure-free", n))
		dags(n, func(e [][2]int) bool {
			sts := styles
			if len(e) == 0 {
				sts = styles[:1]
			}
			if n == 5 && r.Quick() {
				sts = []string{"field", "mixed", "after"}
			}
			for _, st := range sts {
				if !do(kase{N: n, Edges: e, Style: st, FailAt: -1}) {
					return false
				}
			}
			if n <= 3 && len(e) > 0 {
				do(kase{N: n, Edges: e, Style: "mixed", FailAt: -1})
			}
			return true
		})
	}
	if r.Thorough() {
		// 6 tasks: only DAGs with at least 9 of the 15 possible edges (few
		// linear extensions, i.e. few completion orders each)
		r.Section("DAGs on 6 tasks with >=9 edges, styles field and mixed, failure-free")
		dags(6, func(e [][2]int) bool {
			if len(e) < 9 {
				return true
			}
			for _, st := range []string{"field", "mixed"} {
				if !do(kase{N: 6, Edges: e, Style: st, FailAt: -1}) {
					return false
				}
			}
			return true
		})
	}
	dynN := 3
	if r.Thorough() {
		dynN = 4
	}
	r.Section(fmt.Sprintf("dynamic tasks (DAGs on <=%d tasks)", dynN))
	for n := 1; n <= dynN; n++ {
		dags(n, func(e [][2]int) bool {
			do(kase{N: n, Edges: e, Style: "field", Extra: "dynamic", FailAt: -1})
			do(kase{N: n, Edges: e, Style: "field", Extra: "dynamic-list", FailAt: -1})
			for g := 0; g < n; g++ {
				for d := 0; d < n; d++ {
					if g != d {
						do(kase{N: n, Edges: e, Style: "field", Extra: "dynamic-other", FailAt: -1, DynGen: g, DynDep: d})
					}
				}
			}
			return true
		})
	}
	fn := 4
	r.Section(fmt.Sprintf("one injected failure / abort / cancel at every position, DAGs on <=%d tasks", fn))
	for n := 1; n <= fn; n++ {
		dags(n, func(e [][2]int) bool {
			for _, st := range []string{"field", "after"} {
				for at := 0; at < n; at++ {
					for _, k := range []string{"fail", "abort", "cancel"} {
						if !do(kase{N: n, Edges: e, Style: st, FailAt: at, FailKind: k}) {
							return false
						}
					}
				}
			}
			return true
		})
	}
	r.Section("dependency cycles (2- and 3-cycles) are reported, not deadlocked")
	for _, cyc := range [][][2]int{{{0, 1}, {1, 0}}, {{0, 1}, {1, 2}, {2, 0}}, {{0, 1}, {1, 0}, {1, 2}}} {
		for _, st := range styles {
			if !r.Mine() {
				continue
			}
			c := kase{N: 3, Edges: cyc, Style: st, Extra: "cycle", FailAt: -1}
			r.Guard(c, func() { checkCycle(r, c) })
		}
	}
}

func checkCycle(r *core.Run, c kase) {
	ex := execute(c, nil)
	r.Trans(len(ex.events) + 1)
	r.Trace(1)
	if ex.viol != "" && !strings.HasPrefix(ex.viol, "generator") {
		r.Violation(keyOf("cycle: "+ex.viol, c), c, strings.Join(ex.events, " "))
		return
	}
	if strings.HasPrefix(ex.viol, "generator") {
		// the evaluator itself reports the reference cycle: also "reported"
		r.Outcome("cycle-reported")
		return
	}
	if ex.runErr == nil {
		r.Violation(keyOf("dependency cycle not reported", c), c, fmt.Sprintf("events: %s\nprogram:\n%s", strings.Join(ex.events, " "), program(c)))
		return
	}
	cyc := map[int]bool{}
	for _, e := range c.Edges {
		cyc[e[0]], cyc[e[1]] = true, true
	}
	for i := range cyc {
		if ex.starts[fmt.Sprintf("t%d", i)] > 0 {
			r.Violation(keyOf("a task on a dependency cycle was started", c), c, strings.Join(ex.events, " "))
			return
		}
	}
	r.Outcome("cycle-reported")
	r.Nontrivial()
}

func replay(r *core.Run, raw json.RawMessage) {
	var c kase
	if err := json.Unmarshal(raw, &c); err != nil {
		r.EngineError(err.Error())
		return
	}
	if c.Extra == "cycle" {
		checkCycle(r, c)
		return
	}
	explore(r, c)
}
