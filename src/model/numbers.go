package model

import (
	"math/big"
	"strings"
)

// ---- numbers: exact arithmetic oracle and an independent literal grammar ----

var ten = big.NewInt(10)

func pow10(n int) *big.Int { return new(big.Int).Exp(ten, big.NewInt(int64(n)), nil) }

// SigDigits returns the number of significant decimal digits needed to write r
// exactly, or -1 if r is not a finite decimal.
func SigDigits(r *big.Rat) int {
	if r.Sign() == 0 {
		return 1
	}
	// r = n/d finite decimal iff d = 2^a 5^b
	d := new(big.Int).Set(r.Denom())
	n := new(big.Int).Abs(r.Num())
	two, five := big.NewInt(2), big.NewInt(5)
	a, b := 0, 0
	m := new(big.Int)
	for m.Mod(d, two).Sign() == 0 {
		d.Div(d, two)
		a++
	}
	for m.Mod(d, five).Sign() == 0 {
		d.Div(d, five)
		b++
	}
	if d.Cmp(big.NewInt(1)) != 0 {
		return -1
	}
	k := a
	if b > k {
		k = b
	}
	// r * 10^k is an integer; strip trailing zeros
	x := new(big.Int).Mul(n, pow10(k))
	x.Div(x, r.Denom())
	s := strings.TrimRight(x.String(), "0")
	if s == "" {
		return 1
	}
	return len(s)
}

// Round rounds r to prec significant decimal digits, half to even.
func Round(r *big.Rat, prec int) *big.Rat {
	if r.Sign() == 0 {
		return new(big.Rat)
	}
	neg := r.Sign() < 0
	a := new(big.Rat).Abs(r)
	// find e with 10^(prec-1) <= a / 10^e < 10^prec
	e := len(a.Num().String()) - len(a.Denom().String()) - prec
	scale := func(e int) *big.Rat {
		if e >= 0 {
			return new(big.Rat).Quo(a, new(big.Rat).SetInt(pow10(e)))
		}
		return new(big.Rat).Mul(a, new(big.Rat).SetInt(pow10(-e)))
	}
	lo, hi := new(big.Rat).SetInt(pow10(prec-1)), new(big.Rat).SetInt(pow10(prec))
	for scale(e).Cmp(hi) >= 0 {
		e++
	}
	for scale(e).Cmp(lo) < 0 {
		e--
	}
	s := scale(e)
	q, rem := new(big.Int).QuoRem(s.Num(), s.Denom(), new(big.Int))
	// compare 2*rem with denom
	twice := new(big.Int).Lsh(rem, 1)
	switch c := twice.Cmp(s.Denom()); {
	case c > 0:
		q.Add(q, big.NewInt(1))
	case c == 0:
		if q.Bit(0) == 1 {
			q.Add(q, big.NewInt(1))
		}
	}
	res := new(big.Rat).SetInt(q)
	if e >= 0 {
		res.Mul(res, new(big.Rat).SetInt(pow10(e)))
	} else {
		res.Quo(res, new(big.Rat).SetInt(pow10(-e)))
	}
	if neg {
		res.Neg(res)
	}
	return res
}

// IsNearest reports whether got is a nearest prec-digit decimal to exact: it
// has at most prec significant digits and no prec-digit decimal is strictly
// closer (on an exact tie both neighbours are accepted: the spec demands
// "round to the nearest representable value" and does not fix the tie rule).
func IsNearest(got, exact *big.Rat, prec int) bool {
	if d := SigDigits(got); d < 0 || d > prec {
		return false
	}
	he := Round(exact, prec) // one nearest value
	dGot := new(big.Rat).Sub(got, exact)
	dGot.Abs(dGot)
	dHe := new(big.Rat).Sub(he, exact)
	dHe.Abs(dHe)
	return dGot.Cmp(dHe) == 0
}

// NumLit is the result of the independent literal grammar (spec "Numeric
// literals"): ok, kind ("int"/"float") and exact value.
type NumLit struct {
	OK    bool
	Kind  string
	Value *big.Rat
	SI    bool // has a multiplier
	Frac  bool // SI literal whose exact product is not an integer
}

func digitsOK(s string, valid string, firstMayBeZero bool) bool {
	// digit { ["_"] digit }
	if s == "" {
		return false
	}
	prevUnderscore := true // disallow leading underscore
	for i := 0; i < len(s); i++ {
		c := s[i]
		if c == '_' {
			if prevUnderscore {
				return false
			}
			prevUnderscore = true
			continue
		}
		if !strings.ContainsRune(valid, rune(c)) {
			return false
		}
		prevUnderscore = false
	}
	return !prevUnderscore || len(s) == 0
}

const dec = "0123456789"

func decimals(s string) bool { return digitsOK(s, dec, true) }

func strip(s string) string { return strings.ReplaceAll(s, "_", "") }

// ParseNumLit implements int_lit | float_lit of the spec, from scratch.
func ParseNumLit(s string) NumLit {
	bad := NumLit{}
	if s == "" {
		return bad
	}
	// prefixed integers
	if len(s) > 2 && s[0] == '0' {
		base, valid := 0, ""
		switch s[1] {
		case 'x', 'X':
			base, valid = 16, "0123456789abcdefABCDEF"
		case 'b':
			base, valid = 2, "01"
		case 'o':
			base, valid = 8, "01234567"
		}
		if base != 0 {
			if !digitsOK(s[2:], valid, true) {
				return bad
			}
			n, ok := new(big.Int).SetString(strip(s[2:]), base)
			if !ok {
				return bad
			}
			return NumLit{OK: true, Kind: "int", Value: new(big.Rat).SetInt(n)}
		}
	}
	// multiplier?
	mult := (*big.Int)(nil)
	body := s
	for _, m := range []string{"Ki", "Mi", "Gi", "Ti", "Pi", "K", "M", "G", "T", "P"} {
		if strings.HasSuffix(s, m) {
			exp := int64(strings.Index("KMGTP", m[:1]) + 1)
			b := int64(1000)
			if len(m) == 2 {
				b = 1024
			}
			mult = new(big.Int).Exp(big.NewInt(b), big.NewInt(exp), nil)
			body = s[:len(s)-len(m)]
			break
		}
	}
	if mult != nil {
		// si_lit = decimals ["." decimals] multiplier | "." decimals multiplier
		ip, fp, hasDot := body, "", false
		if i := strings.IndexByte(body, '.'); i >= 0 {
			ip, fp, hasDot = body[:i], body[i+1:], true
		}
		if hasDot {
			if !decimals(fp) || (ip != "" && !decimals(ip)) {
				return bad
			}
		} else if !decimals(ip) {
			return bad
		}
		txt := strip(ip)
		if txt == "" {
			txt = "0"
		}
		if hasDot {
			txt += "." + strip(fp)
		}
		v, ok := new(big.Rat).SetString(txt)
		if !ok {
			return bad
		}
		v.Mul(v, new(big.Rat).SetInt(mult))
		frac := !v.IsInt()
		if frac {
			// truncated towards zero
			q := new(big.Int).Quo(v.Num(), v.Denom())
			v = new(big.Rat).SetInt(q)
		}
		return NumLit{OK: true, Kind: "int", Value: v, SI: true, Frac: frac}
	}
	// exponent?
	mant, exp, hasExp := s, "", false
	if i := strings.IndexAny(s, "eE"); i >= 0 {
		mant, exp, hasExp = s[:i], s[i+1:], true
		e := exp
		if e != "" && (e[0] == '+' || e[0] == '-') {
			e = e[1:]
		}
		if !decimals(e) {
			return bad
		}
	}
	if i := strings.IndexByte(mant, '.'); i >= 0 {
		ip, fp := mant[:i], mant[i+1:]
		// decimals "." [decimals] | "." decimals
		switch {
		case ip == "" && !decimals(fp):
			return bad
		case ip != "" && (!decimals(ip) || (fp != "" && !decimals(fp))):
			return bad
		}
		txt := strip(ip)
		if txt == "" {
			txt = "0"
		}
		txt += "." + strip(fp) + "0"
		if hasExp {
			txt += "e" + strip(exp)
		}
		v, ok := new(big.Rat).SetString(txt)
		if !ok {
			return bad
		}
		return NumLit{OK: true, Kind: "float", Value: v}
	}
	if hasExp {
		// decimals exponent
		if !decimals(mant) {
			return bad
		}
		v, ok := new(big.Rat).SetString(strip(mant) + "e" + strip(exp))
		if !ok {
			return bad
		}
		return NumLit{OK: true, Kind: "float", Value: v}
	}
	// decimal_lit = "0" | ("1"…"9") { ["_"] decimal_digit }
	if s == "0" {
		return NumLit{OK: true, Kind: "int", Value: new(big.Rat)}
	}
	if s[0] < '1' || s[0] > '9' || !decimals(s) {
		return bad
	}
	n, ok := new(big.Int).SetString(strip(s), 10)
	if !ok {
		return bad
	}
	return NumLit{OK: true, Kind: "int", Value: new(big.Rat).SetInt(n)}
}
