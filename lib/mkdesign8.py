#!/usr/bin/env python3
"""Regenerates the generated lists of DESIGN.md section 8 (fixed defects,
known findings, seed table) from known_findings.jsonl and seeded/*/meta.json.
The prose of section 8 lives in lib/design8.md with three placeholders."""
import json,glob,os,re
s=open('/verif/DESIGN.md').read()
body=open('/verif/lib/design8.md').read()
known=[json.loads(l) for l in open('/verif/known_findings.jsonl') if l.startswith('{')]
fx=['* %s' % re.sub(r'^fixed: ','',k['what']) for k in known if k['status']=='fixed']
kf=['* **%s** — %s' % (k['property'], k['what']) for k in known if k['status']=='known']
rows=[]
for d in sorted(glob.glob('/verif/seeded/*')):
    m=json.load(open(d+'/meta.json'))
    h=m.get('check_result',{}).get('history','') or 'DETECTED at once.'
    rows.append('| %s | `%s` | %s |' % (m['property'], os.path.basename(d), h.replace('|','/')))
body=body.replace('@FIXED@','\n'.join(fx)).replace('@KNOWN@','\n'.join(kf)).replace('@SEEDS@','\n'.join(rows))
i=s.index('## 8. Changelog')
j=s.index('## Appendix A')
open('/verif/DESIGN.md','w').write(s[:i]+body+'\n'+s[j:])
print('section 8:',len(body.split('\n')),'lines')
