package gen

import (
	"sort"
	"strings"
)

// ---- Program grammar (PG) ----
//
// A program is a multiset of top-level declarations drawn from a pool. The
// pool is the alphabet; the number of declarations is the bound. Labels are
// few (a, b, c, #D, _h) so declarations are forced to collide. Every pool
// entry exists because of a shortcut visible in the evaluator (structure
// sharing, bound simplification, disjunction dedup, closedness bookkeeping,
// comprehensions, let, dynamic fields).

// Val is one operand of the top-level & chain of a field value.
type Val struct {
	Text  string // expression text, used when Inner == nil
	Inner []Decl // struct literal members (permutable)
	Wrap  string // optional wrapper with %s, e.g. "close(%s)"
}

// Decl is a declaration. Label=="" means Raw is emitted verbatim
// (embedding, comprehension, let, ellipsis).
type Decl struct {
	Label string
	Conj  []Val
	Raw   string
	Needs []string // labels that must be declared somewhere in the program
}

func (v Val) String() string {
	s := v.Text
	if v.Inner != nil {
		var parts []string
		for _, d := range v.Inner {
			parts = append(parts, d.String())
		}
		s = "{" + strings.Join(parts, ", ") + "}"
	}
	if v.Wrap != "" {
		s = strings.Replace(v.Wrap, "%s", s, 1)
	}
	return s
}

func (d Decl) String() string {
	if d.Label == "" {
		return d.Raw
	}
	var parts []string
	for _, c := range d.Conj {
		s := c.String()
		if len(d.Conj) > 1 && needsParen(s) {
			s = "(" + s + ")"
		}
		parts = append(parts, s)
	}
	return d.Label + ": " + strings.Join(parts, " & ")
}

func needsParen(s string) bool {
	depth := 0
	inStr := false
	for i := 0; i < len(s); i++ {
		ch := s[i]
		if inStr {
			if ch == '\\' {
				i++
			} else if ch == '"' {
				inStr = false
			}
			continue
		}
		switch ch {
		case '"':
			inStr = true
		case '{', '[', '(':
			depth++
		case '}', ']', ')':
			depth--
		case '|', '&', '+', '-', '<', '>', '=', '!', '*':
			if depth == 0 {
				return true
			}
		}
	}
	return false
}

// Render prints declarations one per line.
func Render(ds []Decl) string {
	var sb strings.Builder
	for _, d := range ds {
		sb.WriteString(d.String())
		sb.WriteString("\n")
	}
	return sb.String()
}

func f(label string, needs string, conj ...Val) Decl {
	d := Decl{Label: label, Conj: conj}
	if needs != "" {
		d.Needs = strings.Fields(needs)
	}
	return d
}
func t(s string) Val { return Val{Text: s} }
func st(inner ...Decl) Val {
	if inner == nil {
		inner = []Decl{}
	}
	return Val{Inner: inner}
}
func raw(s, needs string) Decl {
	d := Decl{Raw: s}
	if needs != "" {
		d.Needs = strings.Fields(needs)
	}
	return d
}
func in(label, text string) Decl { return Decl{Label: label, Conj: []Val{t(text)}} }

// Pool returns the declaration alphabet of a profile.
//
//	"order"   C01/C07: evaluable and erroneous programs, no self-reference
//	"hostile" C02: order + cyclic / self-referential / conflicting
//	"small"   reduced pool for deeper bounds
func Pool(profile string) []Decl {
	var p []Decl
	add := func(ds ...Decl) { p = append(p, ds...) }
	// scalars, types, bounds on a (bound simplification depends on arrival order)
	add(in("a", "1"), in("a", "2"), in("a", "int"), in("a", "number"), in("a", ">1"), in("a", "<3"), in("a", ">=2"), in("a", "!=2"),
		in("a", `"s"`), in("a", "string"), in("a", "<=2.5"))
	add(f("a", "", t(">1"), t("<3")), f("a", "", t(">=2"), t("<=2"), t("int")))
	// disjunctions and defaults
	add(in("a", "1 | 2"), in("a", "*1 | 2"), in("a", "1 | *2"), in("a", "*1 | *2 | 3"), in("a", "int | string"), in("a", "*1 | int"),
		in("a", "2 | 1 | 2"), f("a", "", t("(*1 | 2)"), t("(1 | *2)")))
	// references / structure sharing
	add(f("a", "b", t("b")), f("b", "a", t("a")), f("b", "", t("1")), f("b", "", t("int")), f("b", "", t("*2 | 3")),
		f("b", "a", t("a"), t(">0")), f("c", "a", t("a + 1")), f("c", "a b", t("a & b")), f("c", "a", t(`"\(a)"`)),
		f("c", "a b", t("[a, b]")), f("c", "a", t("[a, ...]")), f("c", "a", t("a | 5")))
	// structs
	xs := []Decl{in("x", "1"), in("x", "int"), in("x?", "int"), in("x!", "int"), in("y", "2"), in("y", "x"), in(`[=~"^x"]`, "int"), raw("...", ""), in("x", "*1 | 2"), in("x", ">0")}
	add(f("a", "", st(xs[0])), f("a", "", st(xs[1])), f("a", "", st(xs[2])), f("a", "", st(xs[3])), f("a", "", st(xs[4])),
		f("a", "", st(xs[0], xs[5])), f("a", "", st(xs[6])), f("a", "", st(xs[1], xs[7])), f("a", "", st(xs[8])),
		f("a", "", st(xs[6], xs[4])), f("a", "", st()), f("a", "", Val{Inner: []Decl{xs[0]}, Wrap: "close(%s)"}),
		f("a", "", Val{Inner: []Decl{xs[2]}, Wrap: "close(%s)"}), f("a", "", st(xs[1]), st(xs[9])))
	add(f("b", "", st(xs[0])), f("b", "", st(xs[4])), f("b", "a", t("a"), st(xs[4])), f("b", "a", t("a.x")), f("b", "a", st(raw("a", ""), xs[4])),
		f("b", "a", st(raw("a", ""))))
	// definitions and closedness
	add(f("#D", "", st(xs[1])), f("#D", "", st(xs[2])), f("#D", "", st(xs[3], xs[4])), f("#D", "", st(xs[6])), f("#D", "", st(xs[1], xs[7])),
		f("#D", "", st(in("x", "int"), in("#E", "1"), in("_h", "1"))),
		f("a", "#D", t("#D")), f("a", "#D", t("#D"), st(xs[0])), f("a", "#D", t("#D"), st(xs[4])), f("a", "#D", st(raw("#D", ""), xs[4])),
		f("a", "#D", st(raw("#D", ""))), f("b", "#D", t("#D.x")), f("a", "#D", t("#D"), t("#D")), f("c", "#D", t("#D | {z: 1}")),
		f("a", "#D", t("*#D | {z: 1}")))
	// hidden, optional at top level, lists
	add(in("_h", "1"), f("a", "_h", t("_h")), in("a?", "int"), in("a!", "int"), in("a", "[1, 2]"), in("a", "[int, ...]"), in("a", "[...int]"),
		in("a", "[1, ...int]"), in("a", "[_, 2]"))
	// comprehensions, let, dynamic fields, embeddings at top level
	add(raw("if b != _|_ {c: 1}", "b"), raw("if a.x != _|_ {c: a.x}", "a"), raw("for k, v in a {(k + \"2\"): v}", "a"),
		raw("let L = b", "b"), f("c", "L", t("L")), raw(`("a"): 1`, ""), raw(`(b): 1`, "b"), in("b", `"a"`), raw("b", "b"),
		raw("#D", "#D"), raw("{a: int}", ""), raw("...", ""), raw(`[=~"^a"]: int`, ""), raw(`[string]: {x?: int}`, ""))
	// list literals of every open/closed x length combination (list-length bookkeeping)
	add(in("a", "[1]"), in("a", "[_, ...]"), in("a", "[]"), in("a", "[...]"), in("a", "[1, 2, ...]"))
	if profile == "hostile" {
		add(f("a", "", t("a")), f("a", "", t("a"), st(in("b", "a"))), in("a", "[a]"), f("#D", "", st(in("n?", "#D"))), f("a", "b", t("b + 1")),
			f("b", "a", t("a - 1")), in("a", "a | 1"), raw("let X = X", ""), in("a", "{x: a}"), f("a", "", st(in("x", "y"), in("y", "x"))),
			f("a", "", t("{x: 1}"), t("{x: 2}")), f("a", "", st(in("x", "y + 1"), in("y", "x - 1"))), in("a", "1 & 2"), in("a", "_|_"),
			f("a", "#D", t("#D"), st(in("zz", "1"))), in("a", "{x!: >1, >2}"), in("a", "close({}) & {q: 1}"), in("a", "[...a]"),
			in("a", "{[string]: a}"), in("a", "div(1, 0)"), in("a", "1 / 0"), in("a", "{x: y, y: z, z: x}"), in("#D", "{x: #D | null}"),
			f("a", "", t("*a | 1")), in("a", "{for k, v in a {(k): v}}"), in("a", "{if a.x != _|_ {y: 1}, x: 1}"), in("a", "{if a.y == _|_ {y: 1}}"), in("a", "{<3}"), in("a", "{>1, x?: 1}"), in("a", `matchN(1, [error("x"), error("x")]) & ([...] | {...})`), in("a", "matchN(1, [int, string])"),
			in("a", `error("x") | 1`), in("a", "matchIf(int, 1, 2)"), in("a", `matchN(0, [a])`), in("a", "and([])"), in("a", "or([])"), in("a", "len(a)"), f("b", "a", st(raw("a.x", ""))))
	}
	if profile == "small" {
		keep := map[string]bool{}
		for _, s := range []string{"a: 1", "a: int", "a: >1", "a: <3", "a: *1 | 2", "a: 1 | *2", "a: b", "b: a", "b: int", "b: *2 | 3",
			"a: {x: 1}", "a: {x: int}", "a: {x?: int}", "a: {x!: int}", "a: {y: 2}", "a: close({x: 1})", "b: a & {y: 2}", "b: {a, y: 2}",
			"#D: {x: int}", "#D: {x?: int}", "a: #D", "a: #D & {y: 2}", "a: {#D, y: 2}", "c: a + 1", "if b != _|_ {c: 1}", "a: {[=~\"^x\"]: int}",
			"a: {x: 1, y: x}", "b: a.x", "b: 1", "c: a & b", "a: {}", "a: #D & {x: 1}"} {
			keep[s] = true
		}
		var q []Decl
		for _, d := range p {
			if keep[d.String()] {
				q = append(q, d)
			}
		}
		return q
	}
	return p
}

// Theme returns a sub-pool of the "order" pool for 3- and 4-way interactions
// inside one feature: "lists", "disjunctions", "bounds", "closedness",
// "comprehensions".
func Theme(name string) []Decl {
	if name == "comprehensions" {
		// pattern constraints meeting fields (regular, optional, required) that
		// only come into existence through a comprehension
		return []Decl{
			f("a", "", st(in("[string]", "int"))), f("a", "", st(in("[string]", ">5"))), f("a", "", st(in(`[=~"^x"]`, "int"))),
			f("a", "", st(raw("if true {x!: string}", ""))), f("a", "", st(raw("if true {x?: int}", ""))), f("a", "", st(raw("if true {x: 3}", ""))),
			f("a", "b", st(raw("if b {x?: int}", ""))), f("a", "", st(raw("for k, v in {x: 7} {(k): v}", ""))),
			f("a", "", st(in("x", "7"))), f("a", "", st(in("x", "3"))), f("a", "", st(in("x?", "int"))), f("a", "", st(in("x!", "int"))),
			f("a", "", st(in("x", `"s"`))), in("b", "true"), f("a", "", st(raw("...", ""))), f("a", "", Val{Inner: []Decl{in("[string]", "int")}, Wrap: "close(%s)"}),
			f("c", "a", t("a.x")), f("c", "a", t("a & {x: 9}")),
		}
	}
	var out []Decl
	for _, d := range Pool("order") {
		s := d.String()
		ok := false
		switch name {
		case "lists":
			ok = strings.HasPrefix(s, "a: [") && !strings.HasPrefix(s, "a: [=") || s == "b: a" || s == "c: [a, b]" || s == "c: [a, ...]"
		case "disjunctions":
			ok = strings.HasPrefix(s, "a: ") && strings.Contains(s, "|") || s == "a: int" || s == "a: >1" || s == "a: 2" || s == "b: a" || s == "c: a | 5" || s == "b: *2 | 3"
		case "bounds":
			ok = strings.HasPrefix(s, "a: ") && (strings.ContainsAny(s[3:4], "<>!=") || strings.HasPrefix(s, "a: (>")) || s == "a: int" || s == "a: number" || s == "a: 1" || s == "a: 2" || s == "b: a & (>0)" || s == "a: b" || s == "b: int"
		case "closedness":
			ok = strings.HasPrefix(s, "#D:") || strings.Contains(s, "#D") || strings.Contains(s, "close(") || s == "a: {y: 2}" || s == "a: {x: 1}" || s == "b: {a, y: 2}" || s == "b: a & {y: 2}" || s == "a: {}"
		}
		if ok {
			out = append(out, d)
		}
	}
	if name == "bounds" {
		// bound pairs with no integer between them: whether they are empty
		// depends on the kind, which may arrive later through a reference
		out = append(out, f("a", "", t(">1"), t("<2")), in("a", "<2"), in("a", ">1.5"), in("a", "<1.7"), f("a", "b", t(">1"), t("<2"), t("b")))
	}
	return out
}

// Multisets enumerates all multisets of size k over [0,n) as non-decreasing
// index slices.
func Multisets(k, n int, fn func(ix []int) bool) {
	ix := make([]int, k)
	var rec func(pos, from int) bool
	rec = func(pos, from int) bool {
		if pos == k {
			return fn(ix)
		}
		for i := from; i < n; i++ {
			ix[pos] = i
			if !rec(pos+1, i) {
				return false
			}
		}
		return true
	}
	rec(0, 0)
}

// Resolvable reports whether every label needed by the declarations is
// declared (so the program compiles without "reference not found").
func Resolvable(ds []Decl) bool {
	have := map[string]bool{}
	for _, d := range ds {
		l := strings.TrimRight(d.Label, "?!")
		if l != "" {
			have[l] = true
		}
		if strings.HasPrefix(d.Raw, "let L") {
			have["L"] = true
		}
		if d.Raw == "{a: int}" {
			have["a"] = true
		}
	}
	for _, d := range ds {
		for _, n := range d.Needs {
			if !have[n] {
				return false
			}
		}
	}
	return true
}

// Permutations calls fn with every permutation of [0,n) (Heap's order is not
// needed; lexicographic).
func Permutations(n int, fn func(p []int) bool) {
	p := make([]int, n)
	for i := range p {
		p[i] = i
	}
	for {
		if !fn(p) {
			return
		}
		i := n - 2
		for i >= 0 && p[i] > p[i+1] {
			i--
		}
		if i < 0 {
			return
		}
		j := n - 1
		for p[j] < p[i] {
			j--
		}
		p[i], p[j] = p[j], p[i]
		sort.Ints(p[i+1:])
	}
}

// Partitions enumerates all partitions of [0,n) into at most maxParts
// non-empty ordered blocks (i.e. set partitions x block orders), as a slice
// giving the block index of each element.
func Partitions(n, maxParts int, fn func(block []int, parts int) bool) {
	block := make([]int, n)
	var rec func(i, used int) bool
	rec = func(i, used int) bool {
		if i == n {
			// all blocks 0..used-1 must be non-empty: guaranteed by construction
			return fn(block, used)
		}
		for b := 0; b < used; b++ {
			block[i] = b
			if !rec(i+1, used) {
				return false
			}
		}
		if used < maxParts {
			block[i] = used
			if !rec(i+1, used+1) {
				return false
			}
		}
		return true
	}
	rec(0, 0)
}
