// Package core is the shared driver of the /verif model-checking harnesses:
// deterministic sharded enumeration, per-case guards (panic, stall),
// result merging, evidence writing, known-findings handling and replay.
//
// It is compiled into module cuelang.org/go through `go build -overlay`
// (virtual path cuelang.org/go/internal/verif/core); nothing is written to /repo.
package core

import (
	"crypto/sha256"
	"encoding/hex"
	"encoding/json"
	"fmt"
	"os"
	"regexp"
	"runtime/debug"
	"sort"
	"strings"
	"sync"
	"sync/atomic"
	"time"
)

// Prop describes one property check.
type Prop struct {
	ID          string
	Level       string // evidence level, normally "model_checking"
	Rule        string // how cases are enumerated and what makes one non-trivial
	Assumptions []string
	// Run enumerates the whole space deterministically; it calls r.Mine() for
	// every case and executes only those for which it returns true.
	Run func(r *Run)
	// Replay re-executes exactly one recorded case.
	Replay func(r *Run, payload json.RawMessage)
	// RequireOutcomes are outcome labels that a complete run must have seen at
	// least once (vacuity guard).
	RequireOutcomes []string
	// MinOutcomes is the minimum number of distinct outcome labels.
	MinOutcomes int
	// Workers overrides the number of worker processes (0 = number of CPUs).
	Workers int
	// StallSeconds is the per-case watchdog limit (0 = 120).
	StallSeconds int
	// BudgetQuick/BudgetThorough are soft deadlines in seconds for the
	// enumeration (0 = 240 / 1500). When hit the run stops with exhaustive=false.
	BudgetQuick, BudgetThorough int
	// MaxStackMB caps goroutine stacks in workers (0 = 512).
	MaxStackMB int
}

var registry = map[string]*Prop{}

var procStart = time.Now()

func Register(p *Prop) {
	if p.Level == "" {
		p.Level = "model_checking"
	}
	registry[p.ID] = p
}

func Lookup(id string) *Prop { return registry[id] }

func IDs() []string {
	var ids []string
	for id := range registry {
		ids = append(ids, id)
	}
	sort.Strings(ids)
	return ids
}

// Violation is one property violation found by a worker.
type Violation struct {
	Key     string          `json:"key"`
	Detail  string          `json:"detail"`
	Payload json.RawMessage `json:"payload"`
}

// Section is a named part of the space (normally one bound level).
type Section struct {
	Name     string `json:"name"`
	Cases    int64  `json:"cases"`
	Complete bool   `json:"complete"`
}

// Result is what one worker reports and what the parent merges.
type Result struct {
	Evaluations int64               `json:"evaluations"`
	Nontrivial  int64               `json:"distinct_nontrivial"`
	States      int64               `json:"states"`
	Transitions int64               `json:"transitions"`
	Traces      int64               `json:"traces_validated_against_impl"`
	Counters    map[string]int64    `json:"counters,omitempty"`
	Outcomes    map[string]int64    `json:"outcomes,omitempty"`
	Samples     []json.RawMessage   `json:"samples,omitempty"`
	Violations  []Violation         `json:"violations,omitempty"`
	NViolations int64               `json:"n_violations"`
	Sections    []Section           `json:"sections,omitempty"`
	Unclaimed   map[string]int64    `json:"unclaimed,omitempty"`
	KnownHits   map[int]int64       `json:"known_hits,omitempty"` // index into known findings -> count
	Cut         bool                `json:"cut"`                  // deadline hit
	EngineError string              `json:"engine_error,omitempty"`
	StateSet    map[string]struct{} `json:"-"`
}

// Run is the per-worker context handed to Prop.Run.
type Run struct {
	Prop      *Prop
	Tier      string
	Seed      int64
	ShardK    int
	ShardN    int
	Replaying bool
	Only      int64 // if >0 run only the case with this sequence number

	counter    int64
	subCounter int64
	deadline   time.Time
	res        Result
	mu         sync.Mutex

	curSeq      atomic.Int64
	curStart    atomic.Int64
	curPayload  atomic.Value // func() any
	tracePath   string
	outPath     string
	maxViol     int
	sampleEvery int64
	sec         *Section
	knownRE     []*regexp.Regexp
}

func (r *Run) Quick() bool    { return r.Tier != "thorough" }
func (r *Run) Thorough() bool { return r.Tier == "thorough" }

// Mine advances the case counter and reports whether this worker owns the case.
func (r *Run) Mine() bool {
	r.counter++
	if r.sec != nil {
		r.sec.Cases++
	}
	if r.Only > 0 {
		return r.counter == r.Only
	}
	if r.res.Cut {
		return false
	}
	if r.counter&0xff == 0 && !r.deadline.IsZero() && time.Now().After(r.deadline) {
		r.res.Cut = true
		return false
	}
	return int(r.counter%int64(r.ShardN)) == r.ShardK
}

// Expired reports whether the soft deadline was hit; enumerators may use it to
// stop early.
func (r *Run) Expired() bool {
	if r.res.Cut {
		return true
	}
	if !r.deadline.IsZero() && time.Now().After(r.deadline) {
		r.res.Cut = true
	}
	return r.res.Cut
}

// Section starts a named part of the enumeration. Sections should be ordered
// by increasing bound so that "largest complete section" is meaningful.
func (r *Run) Section(name string) {
	if os.Getenv("VERIF_SECTION_TIMES") != "" {
		fmt.Fprintf(os.Stderr, "[%s] section %q starts at %s evals=%d\n", r.Prop.ID, name, time.Since(procStart).Round(time.Millisecond), r.res.Evaluations)
	}
	r.endSection()
	r.res.Sections = append(r.res.Sections, Section{Name: name})
	r.sec = &r.res.Sections[len(r.res.Sections)-1]
}

func (r *Run) endSection() {
	if r.sec != nil {
		r.sec.Complete = !r.res.Cut
		r.sec = nil
	}
}

// Guard runs one case with panic recovery and watchdog bookkeeping. payload is
// what a replay of this case needs.
func (r *Run) Guard(payload any, fn func()) {
	r.curPayload.Store(&payload)
	r.curStart.Store(time.Now().UnixNano())
	r.curSeq.Store(r.counter)
	if r.tracePath != "" {
		b, _ := json.Marshal(map[string]any{"seq": r.counter, "payload": payload})
		os.WriteFile(r.tracePath, b, 0o644)
	}
	defer func() {
		r.curStart.Store(0)
		if e := recover(); e != nil {
			msg := fmt.Sprint(e)
			first := msg
			if i := strings.IndexByte(first, '\n'); i >= 0 {
				first = first[:i]
			}
			if len(first) > 120 {
				first = first[:120]
			}
			r.Violation("panic: "+first, payload, msg+"\n"+string(debug.Stack()))
		}
	}()
	r.res.Evaluations++
	fn()
}

// Alive tells the watchdog that a long-running case (an exploration inside
// one Guard) is making progress.
func (r *Run) Alive() {
	if r.curStart.Load() != 0 {
		r.curStart.Store(time.Now().UnixNano())
	}
}

// Own is Mine without the section bookkeeping of a new case: it is used to
// split the subtrees of one exploration over the workers.
func (r *Run) Own() bool {
	r.subCounter++
	if r.Only > 0 {
		return true
	}
	return int(r.subCounter%int64(r.ShardN)) == r.ShardK
}

func (r *Run) Eval(n int)  { r.res.Evaluations += int64(n) }
func (r *Run) Trans(n int) { r.res.Transitions += int64(n) }
func (r *Run) Trace(n int) { r.res.Traces += int64(n) }
func (r *Run) Nontrivial() { r.res.Nontrivial++ }

// State records a distinct state / final observation (deduplicated by hash
// within the worker; the parent sums workers, which own disjoint cases).
func (r *Run) State(key string) {
	h := sha256.Sum256([]byte(key))
	k := string(h[:8])
	if r.res.StateSet == nil {
		r.res.StateSet = map[string]struct{}{}
	}
	if _, ok := r.res.StateSet[k]; !ok {
		r.res.StateSet[k] = struct{}{}
		r.res.States++
	}
}

func (r *Run) Count(name string, n int) {
	if r.res.Counters == nil {
		r.res.Counters = map[string]int64{}
	}
	r.res.Counters[name] += int64(n)
}

// Outcome records an outcome label (vacuity guard: distinct labels are
// reported and may be required).
func (r *Run) Outcome(label string) {
	if r.res.Outcomes == nil {
		r.res.Outcomes = map[string]int64{}
	}
	r.res.Outcomes[label]++
}

// Unclaimed counts cases that fall in a fragment removed from the claim.
func (r *Run) Unclaimed(label string) {
	if r.res.Unclaimed == nil {
		r.res.Unclaimed = map[string]int64{}
	}
	r.res.Unclaimed[label]++
}

// Sample offers a case for the evidence samples; a few are kept.
func (r *Run) Sample(v any) {
	if len(r.res.Samples) >= 4 {
		return
	}
	r.sampleEvery++
	// keep the 1st, then rotate by seed so different seeds show different cases
	if len(r.res.Samples) > 0 && (r.sampleEvery+r.Seed)%97 != 0 {
		return
	}
	b, err := json.Marshal(v)
	if err == nil {
		r.res.Samples = append(r.res.Samples, b)
	}
}

// Violation records a violation. key identifies the failing input / call site
// class and is what known findings are matched against.
func (r *Run) Violation(key string, payload any, detail string) {
	r.mu.Lock()
	defer r.mu.Unlock()
	// Known findings are classified here, in the worker, so that the cap on
	// recorded violations can never hide a fresh one behind known ones.
	for i, re := range r.knownRE {
		if re != nil && re.MatchString(key) {
			if r.res.KnownHits == nil {
				r.res.KnownHits = map[int]int64{}
			}
			r.res.KnownHits[i]++
			return
		}
	}
	r.res.NViolations++
	if len(r.res.Violations) >= r.maxViol {
		return
	}
	b, err := json.Marshal(payload)
	if err != nil {
		b, _ = json.Marshal(fmt.Sprint(payload))
	}
	if len(detail) > 6000 {
		detail = detail[:6000] + "…"
	}
	r.res.Violations = append(r.res.Violations, Violation{Key: key, Detail: detail, Payload: b})
	// keep what was found even if the process dies later
	r.flushLocked()
}

func (r *Run) EngineError(msg string) {
	if r.res.EngineError == "" {
		r.res.EngineError = msg
	}
}

func (r *Run) flush() {
	r.endSection()
	r.flushLocked()
}

func (r *Run) flushLocked() {
	b, _ := json.Marshal(&r.res)
	if r.outPath != "" {
		tmp := r.outPath + ".tmp"
		os.WriteFile(tmp, b, 0o644)
		os.Rename(tmp, r.outPath)
	}
}

func (r *Run) watchdog(limit time.Duration) {
	for {
		time.Sleep(500 * time.Millisecond)
		st := r.curStart.Load()
		if st == 0 {
			continue
		}
		if time.Since(time.Unix(0, st)) > limit {
			seq := r.curSeq.Load()
			// confirm still the same case
			time.Sleep(50 * time.Millisecond)
			if r.curStart.Load() != st {
				continue
			}
			var payload any
			if p, ok := r.curPayload.Load().(*any); ok && p != nil {
				payload = *p
			}
			r.Violation(fmt.Sprintf("timeout: case exceeded %s", limit), payload,
				fmt.Sprintf("case seq=%d did not finish within %s", seq, limit))
			r.res.Cut = true
			r.mu.Lock()
			r.flush()
			os.Exit(3)
		}
	}
}

func hashKey(s string) string {
	h := sha256.Sum256([]byte(s))
	return hex.EncodeToString(h[:6])
}
