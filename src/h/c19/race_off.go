//go:build !race

package c19

const raceEnabled = false
