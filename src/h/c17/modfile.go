package c17

import (
	"encoding/json"
	"fmt"
	"sort"
	"strings"

	"cuelang.org/go/internal/mod/semver"
	"cuelang.org/go/internal/verif/core"
	"cuelang.org/go/mod/modfile"
)

// (c) module files: every value of a bounded generator through
// Parse -> Format -> Parse, and every single edit of the formatted text that
// adds an unknown field, misspells a known one or gives a field the wrong type.

type mfDep struct {
	Key     string `json:"key"`
	V       string `json:"v"`
	Default bool   `json:"default,omitempty"`
	Replace string `json:"replace,omitempty"`
}

type mfCase struct {
	Module string  `json:"module"`
	Lang   string  `json:"lang"`
	Source string  `json:"source,omitempty"`
	Deps   []mfDep `json:"deps,omitempty"`
	Custom int     `json:"custom,omitempty"`
	Strict bool    `json:"strict"`
	// Desc: a description field is present; EmptyDeps: `deps: {}` is written
	// although there is no dependency
	Desc      bool `json:"desc,omitempty"`
	EmptyDeps bool `json:"emptyDeps,omitempty"`
}

const mfDescription = "what the module is for"

var (
	mfModules = []string{"x.test/m@v0", "x.test/m@v1", "x.test/m", "x.test/m@v1.2", ""}
	mfLangs   = []string{"v0.8.0", "v0.9.0", "v0.17.0", "v0.18.0", "v0.9.0-alpha.0", "v0.9", "v0.99.0", "0.9.0"}
	mfSources = []string{"", "self", "git", "bzr"}
	mfDeps    = []mfDep{
		{Key: "x.test/a@v0", V: "v0.1.0"},
		{Key: "x.test/a@v0", V: "v0.1.0", Default: true},
		{Key: "x.test/a@v1", V: "v1.2.3-rc.1", Default: true},
		{Key: "x.test/b@v1", V: "v1.0.0+meta"},
		{Key: "x.test/b", V: "v0.3.0"},
		{Key: "x.test/c@v0", V: "v1.0.0"},
		{Key: "x.test/c@v0", V: "v0.1"},
		{Key: "x.test/d@v0", V: "v0.1.0", Replace: "x.test/e@v0"},
	}
	mfCustoms = []string{"", `custom: "x.test/tool": {k: 1, l: [1, "a"], m: {n: null}}`, `custom: legacy: {old: true}`}
)

func (c mfCase) text() string {
	var b strings.Builder
	if c.Module != "" {
		fmt.Fprintf(&b, "module: %q\n", c.Module)
	}
	fmt.Fprintf(&b, "language: version: %q\n", c.Lang)
	if c.Source != "" {
		fmt.Fprintf(&b, "source: kind: %q\n", c.Source)
	}
	if len(c.Deps) > 0 {
		b.WriteString("deps: {\n")
		for _, d := range c.Deps {
			fmt.Fprintf(&b, "\t%q: {v: %q", d.Key, d.V)
			if d.Default {
				b.WriteString(", default: true")
			}
			if d.Replace != "" {
				fmt.Fprintf(&b, ", replaceWith: %q", d.Replace)
			}
			b.WriteString("}\n")
		}
		b.WriteString("}\n")
	}
	if len(c.Deps) == 0 && c.EmptyDeps {
		b.WriteString("deps: {}\n")
	}
	if c.Desc {
		fmt.Fprintf(&b, "description: %q\n", mfDescription)
	}
	if c.Custom > 0 {
		b.WriteString(mfCustoms[c.Custom] + "\n")
	}
	return b.String()
}

func validCanonical(v string) bool { return semver.IsValid(v) && semver.Canonical(v) == v }

// valid is the reference model of which generated files are well formed.
func (c mfCase) valid() (bool, string) {
	if !semver.IsValid(c.Lang) || !strings.HasPrefix(c.Lang, "v") {
		return false, "language version is not a semantic version"
	}
	if !validCanonical(c.Lang) {
		return false, "language version is not canonical"
	}
	if semver.Compare(c.Lang, "v0.18.0") > 0 {
		return false, "language version too new"
	}
	switch c.Module {
	case "":
		return false, "no module path"
	case "x.test/m@v1.2":
		return false, "module major version is not a major version"
	}
	if c.Source != "" {
		if semver.Compare(c.Lang, "v0.9.0-alpha.0") < 0 {
			return false, "source needs v0.9.0"
		}
		if c.Source != "self" && c.Source != "git" {
			return false, "unknown source kind"
		}
	}
	defaults := map[string]bool{}
	for _, d := range c.Deps {
		if !validCanonical(d.V) && !(semver.IsValid(d.V) && strings.Contains(d.V, "+")) {
			return false, "dependency version is not canonical"
		}
		if strings.Contains(d.V, "+") {
			// build metadata: module.NewVersion demands canonical versions
			return false, "dependency version has build metadata"
		}
		if i := strings.IndexByte(d.Key, '@'); i >= 0 {
			if semver.Major(d.V) != d.Key[i+1:] {
				return false, "dependency major version mismatch"
			}
		} else if c.Strict {
			return false, "dependency without major version"
		}
		if d.Replace != "" && semver.Compare(c.Lang, "v0.17.0") < 0 {
			return false, "replaceWith needs v0.17.0"
		}
		if d.Default {
			b := basePath(d.Key)
			if defaults[b] {
				return false, "two defaults"
			}
			defaults[b] = true
		}
	}
	return true, ""
}

func fileJSON(f *modfile.File) string {
	b, _ := json.Marshal(f)
	var vs []string
	for _, v := range f.DepVersions() {
		vs = append(vs, v.String())
	}
	var ds []string
	for k, v := range f.DefaultMajorVersions() {
		ds = append(ds, k+"="+v)
	}
	sort.Strings(ds)
	return fmt.Sprintf("%s\nqualified=%s versions=%v defaults=%v", b, f.QualifiedModule(), vs, ds)
}

func parseMF(strict bool, data string) (*modfile.File, error) {
	if strict {
		return modfile.Parse([]byte(data), "module.cue")
	}
	return modfile.ParseNonStrict([]byte(data), "module.cue")
}

type edit struct {
	name string
	// apply returns the edited text, or "" when the edit does not apply
	apply func(text string) string
	// retained: for an added known field the value must survive Format
	marker string
}

func addLine(l string) func(string) string { return func(t string) string { return t + l + "\n" } }

func replaceIn(old, new string) func(string) string {
	return func(t string) string {
		if !strings.Contains(t, old) {
			return ""
		}
		return strings.Replace(t, old, new, 1)
	}
}

var edits = []edit{
	{name: "unknown top-level field", apply: addLine(`foo: 1`)},
	{name: "misspelt module (capital)", apply: addLine(`Module: "x.test/zz@v0"`)},
	{name: "misspelt deps", apply: addLine(`dep: "x.test/zz@v0": v: "v0.1.0"`)},
	{name: "misspelt language", apply: addLine(`lang: version: "v0.9.0"`)},
	{name: "unknown field in language", apply: addLine(`language: extra: 1`)},
	{name: "unknown field in source", apply: replaceIn(`source: kind: "git"`, `source: {kind: "git", url: "MARK"}`)},
	{name: "unknown field in dep", apply: replaceIn(`{v: "v0.1.0"`, `{v: "v0.1.0", version: "v0.1.0"`)},
	{name: "misspelt default in dep", apply: replaceIn(`default: true`, `defualt: true`)},
	{name: "module of wrong type", apply: replaceIn(`module: "x.test/m@v0"`, `module: 1`)},
	{name: "language version of wrong type", apply: replaceIn(`language: version: "v0.18.0"`, `language: version: 18`)},
	{name: "deps of wrong type", apply: addLine(`deps: ["x.test/zz@v0"]`)},
	{name: "dep of wrong type", apply: addLine(`deps: "x.test/zz@v0": "v0.1.0"`)},
	{name: "dep version of wrong type", apply: replaceIn(`{v: "v0.1.0"`, `{v: 1`)},
	{name: "default of wrong type", apply: replaceIn(`default: true`, `default: "yes"`)},
	{name: "source kind of wrong type", apply: replaceIn(`source: kind: "git"`, `source: kind: 1`)},
	{name: "source of wrong type", apply: replaceIn(`source: kind: "git"`, `source: "git"`)},
	{name: "custom of wrong type", apply: addLine(`custom: 1`)},
	{name: "custom namespace of wrong type", apply: addLine(`custom: "x.test/zz": 1`)},
	{name: "non-concrete value", apply: addLine(`deps: "x.test/zz@v0": v: string`)},
	{name: "known field description", apply: addLine(`description: "MARKDESC"`), marker: "MARKDESC"},
	{name: "second custom namespace", apply: addLine(`custom: "x.test/other": k: "MARKCUSTOM"`), marker: "MARKCUSTOM"},
}

func runModfiles(r *core.Run) {
	r.Section(fmt.Sprintf("module files: %d module paths x %d language versions x %d sources x <=2 of %d deps x %d custom values x {strict, non-strict} x {description, `deps: {}` present or not}; each accepted file x %d single edits", len(mfModules), len(mfLangs), len(mfSources), len(mfDeps), len(mfCustoms), len(edits)))
	var depSets [][]mfDep
	depSets = append(depSets, nil)
	for i := range mfDeps {
		depSets = append(depSets, []mfDep{mfDeps[i]})
	}
	for i := range mfDeps {
		for j := range mfDeps {
			if i != j && mfDeps[i].Key != mfDeps[j].Key {
				depSets = append(depSets, []mfDep{mfDeps[i], mfDeps[j]})
			}
		}
	}
	for _, m := range mfModules {
		for _, l := range mfLangs {
			for _, s := range mfSources {
				for _, ds := range depSets {
					for cu := range mfCustoms {
						for _, strict := range []bool{true, false} {
							// keep the product small: vary custom and source only on the common language versions
							if (cu > 0 || s == "bzr") && l != "v0.9.0" && l != "v0.18.0" && l != "v0.8.0" {
								continue
							}
							if r.Expired() {
								return
							}
							for shape := 0; shape < 4; shape++ {
								// shape: description present (1), `deps: {}` (2), both (3)
								if shape >= 2 && len(ds) > 0 {
									continue
								}
								if !r.Mine() {
									continue
								}
								c := kase{Kind: "modfile"}
								mc := mfCase{Module: m, Lang: l, Source: s, Deps: ds, Custom: cu, Strict: strict, Desc: shape&1 != 0, EmptyDeps: shape&2 != 0}
								b, _ := json.Marshal(mc)
								c.Text = string(b)
								r.Guard(c, func() { checkModfile(r, c) })
							}
						}
					}
				}
			}
		}
	}
}

func checkModfile(r *core.Run, c kase) {
	var mc mfCase
	if err := json.Unmarshal([]byte(c.Text), &mc); err != nil {
		r.EngineError("bad modfile payload")
		return
	}
	text := mc.text()
	mode := "non-strict"
	if mc.Strict {
		mode = "strict"
	}
	viol := func(kind, detail string) {
		r.Violation(fmt.Sprintf("modfile: %s [%s]", kind, mode), c, detail+"\n\nmodule file:\n"+text)
	}
	f, err := parseMF(mc.Strict, text)
	ok, why := mc.valid()
	if err != nil {
		if ok {
			viol("a well-formed module file is rejected", err.Error())
			return
		}
		r.Outcome("modfile:rejected")
		r.State("rej:" + why)
		return
	}
	if !ok {
		viol("malformed module file accepted ("+why+")", fileJSON(f))
		return
	}
	// everything written is represented
	if f.Module != mc.Module || f.Language == nil || f.Language.Version != mc.Lang {
		viol("parsed value loses the module path or language version", fileJSON(f))
		return
	}
	if (mc.Source == "") != (f.Source == nil) || (f.Source != nil && f.Source.Kind != mc.Source) {
		viol("parsed value loses the source", fileJSON(f))
		return
	}
	if len(f.Deps) != len(mc.Deps) {
		viol("parsed value loses a dependency", fileJSON(f))
		return
	}
	for _, d := range mc.Deps {
		fd := f.Deps[d.Key]
		if fd == nil || fd.Version != d.V || fd.Default != d.Default || fd.ReplaceWith != d.Replace {
			viol("parsed value changes a dependency", fileJSON(f))
			return
		}
	}
	if (mc.Custom > 0) != (len(f.Custom) > 0) {
		viol("parsed value loses custom data", fileJSON(f))
		return
	}
	if wantDesc := map[bool]string{true: mfDescription}[mc.Desc]; f.Description != wantDesc {
		viol("parsed value loses the description", fileJSON(f))
		return
	}
	data, err := modfile.Format(f)
	if err != nil {
		viol("Format fails on a parsed module file", err.Error())
		return
	}
	f2, err := parseMF(mc.Strict, string(data))
	if err != nil {
		viol("formatted module file does not parse", err.Error()+"\nformatted:\n"+string(data))
		return
	}
	if a, b := fileJSON(f), fileJSON(f2); a != b {
		viol("Parse(Format(f)) differs from f", "before: "+a+"\nafter:  "+b+"\nformatted:\n"+string(data))
		return
	}
	data2, err := modfile.Format(f2)
	if err != nil || string(data2) != string(data) {
		viol("Format is not stable", fmt.Sprintf("first:\n%s\nsecond:\n%s\nerr=%v", data, data2, err))
		return
	}
	r.Outcome("modfile:roundtrip-ok")
	r.State("ok:" + string(data))
	if len(mc.Deps) > 0 {
		r.Nontrivial()
	}
	// single edits of the formatted text
	for _, e := range edits {
		et := e.apply(string(data))
		if et == "" {
			continue
		}
		r.Eval(1)
		ef, err := parseMF(mc.Strict, et)
		if err != nil {
			r.Outcome("modfile:edit-rejected")
			continue
		}
		if e.marker == "" {
			c2 := c
			c2.Kind = "modfile-edit"
			r.Violation(fmt.Sprintf("modfile: edit %q is accepted [%s]", e.name, mode), c2, "edited module file:\n"+et+"\nparsed: "+fileJSON(ef))
			continue
		}
		// an accepted, known field must survive formatting
		out, err := modfile.Format(ef)
		if err != nil || !strings.Contains(string(out), e.marker) {
			c2 := c
			c2.Kind = "modfile-edit"
			r.Violation(fmt.Sprintf("modfile: field of edit %q is accepted and then dropped [%s]", e.name, mode), c2, fmt.Sprintf("edited module file:\n%s\nformatted again (err=%v):\n%s", et, err, out))
			continue
		}
		r.Outcome("modfile:edit-retained")
	}
}
