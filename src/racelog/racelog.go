// Package racelog reads the reports that the Go race detector writes when a
// harness built with -race runs free (GORACE=log_path=...). The cooperative
// scheduler's hand-offs are happens-before edges that would blind the
// detector, so race passes always run on real goroutines.
package racelog

import (
	"os"
	"strings"
)

var logPrefix = os.Getenv("VERIF_RACE_LOG")

func dir() string { return strings.TrimSuffix(logPrefix, "/race") + "/" }

// Reports returns the number of race reports written so far.
func Reports() int {
	if logPrefix == "" {
		return 0
	}
	n := 0
	ents, _ := os.ReadDir(dir())
	for _, e := range ents {
		if strings.HasPrefix(e.Name(), "race.") {
			b, _ := os.ReadFile(dir() + e.Name())
			n += strings.Count(string(b), "WARNING: DATA RACE")
		}
	}
	return n
}

// Last returns the text of the most recent report.
func Last() string {
	ents, _ := os.ReadDir(dir())
	out := ""
	for _, e := range ents {
		if strings.HasPrefix(e.Name(), "race.") {
			b, _ := os.ReadFile(dir() + e.Name())
			if i := strings.LastIndex(string(b), "WARNING: DATA RACE"); i >= 0 {
				out = string(b[i:])
			}
		}
	}
	if len(out) > 5000 {
		out = out[:5000]
	}
	return out
}

// Site extracts the first repository frame of a race report.
func Site(rep string) string {
	for _, l := range strings.Split(rep, "\n") {
		l = strings.TrimSpace(l)
		if strings.HasPrefix(l, "cuelang.org/go/") && !strings.Contains(l, "internal/verif") {
			if i := strings.LastIndex(l, "("); i > 0 && strings.HasSuffix(l, ")") {
				l = l[:i]
			}
			return l
		}
	}
	return "unknown site"
}
