#!/usr/bin/env python3
"""Regenerates /verif/MANIFEST.json from the table below (single source of
truth for what is claimed). Run after adding a check."""
import json, os
CHECKS = {
 "C01": dict(engine="enum",
   technique="bounded-exhaustive metamorphic exploration: every program (multiset of <=k pool declarations) x every rearrangement, executed on the real evaluator, canonical semantic dump compared",
   text="For every program of the declaration-pool grammar up to the bound, ALL rearrangements (declaration permutations at both struct levels, &-commutation/association, split/merge, duplication, v&v, v&_, {v}, file partitions x file orders) are evaluated by the real evaluator and must give the same canonical value (fields, arc types, closedness by Allows probes, scalar constraints by probe atoms, defaults, error class per path).",
   note="Trusts package canon (public API + adt error codes). Bounded: pool of ~90 declarations over 5 colliding labels, k<=2 (+k=3 on a 32-declaration sub-pool) quick; k=3 / k=4 thorough. Three known evaluator findings are listed in known_findings.jsonl.",
   ref="DESIGN.md §3 C01"),
 "C02": dict(engine="enum",
   technique="bounded-exhaustive input enumeration (token strings, hostile programs, byte strings, single-byte substitutions) through the real pipeline, 4 runs each incl. a helper process; crash/hang attribution per input",
   text="Every input of the bounded spaces runs the full parse->compile->evaluate->validate->export(CUE/JSON/YAML) pipeline twice in one context, once in a fresh context (helper process, stack cap 256 MiB, 30 s deadline) and once in the worker process; any panic, fatal error, timeout or byte difference between the four outputs is a violation.",
   note="Trusts the helper-process protocol; time/memory bounds are the stack cap and the 30 s deadline. Inputs beyond the length/declaration bound are not covered.",
   ref="DESIGN.md §3 C02"),
 "C03": dict(engine="enum",
   technique="bounded-exhaustive enumeration of constraint conjunctions x atoms on the real evaluator against an independent set-membership reference model (big.Rat)",
   text="Every multiset of <=k constraints of a dense alphabet (atoms, types, predeclared ranges, all comparison operators x boundary constants, !=null, regexps) is unified with every atom of the alphabet by the real evaluator; acceptance, the resulting atom, bottom-only-if-unsatisfiable and pinned-atom correctness are compared with the model for every pair.",
   note="Trusts the 150-line model in src/model/scalar.go. Large magnitudes are not in the alphabet (C06 covers number exactness).",
   ref="DESIGN.md §3 C03"),
 "C04": dict(engine="enum",
   technique="bounded-exhaustive enumeration of disjunction/default expressions on the real evaluator against an executable model of the spec's value-default pair rules",
   text="Every expression of the bounded families (disjunctions of width 2-3 with every un-nested mark pattern over 11 leaves, unified with leaves and with other disjunctions, disjunctions of conjunctions, nested unmarked disjunctions carrying defaults) is evaluated by the real evaluator; acceptance of 14 probe values and the resolved default (unique / fallback / ambiguity must be incomplete) are compared with a model of rules U0-U2, D0-D2, M0-M1 plus the spec's elimination sentence.",
   note="Trusts src/model/disj.go. Nested marks (M2/M3) excluded as the property states. One known finding (collapsed marked disjunction loses its default) listed in known_findings.jsonl.",
   ref="DESIGN.md §3 C04"),
 "C05": dict(engine="enum",
   technique="bounded-exhaustive enumeration of schemas x data structs on the real evaluator against an independent struct-membership reference model",
   text="Every schema of the closedness fragment (literals of <=3 members from a 23-30 member alphabet of regular/optional/required fields, patterns, ..., embeddings of literals / close() / definitions; reached open, via close(), via #S and via #T.f; conjunctions of 2-3) is unified with every data struct of a bounded set (incl. hidden/definition fields) by the real evaluator; the accept/reject verdict and the resulting field set are compared with the model for every pair.",
   note="Trusts src/model/structs.go. One fragment is unclaimed (struct-valued field next to an embedded definition: spec example and implementation disagree, property silent).",
   ref="DESIGN.md §3 C05"),
 "C06": dict(engine="enum",
   technique="bounded-exhaustive enumeration of operand pairs x operators and of literal spellings on the real evaluator against math/big and an independent literal grammar",
   text="Every pair from a boundary operand set (2^31..2^64, 10^k around 16/34/40/77 digits, repdigits, long fractions, int and float spellings) under every arithmetic/comparison operator and div/mod/quo/rem is evaluated by the real evaluator and compared with exact big.Rat arithmetic (nearest-34-digit rule for inexact float results and /); every literal spelling up to the bound that the spec grammar allows must evaluate to the spec value and kind, and printed results must read back as the same number.",
   note="Trusts math/big and src/model/numbers.go. 34 significant digits is taken as the documented precision; ties may round either way. Known literal-grammar deviations are listed in known_findings.jsonl.",
   ref="DESIGN.md §3 C06"),
 "C07": dict(engine="enum",
   technique="bounded-exhaustive enumeration of evaluable programs x option profiles x paths; printed text re-compiled in a fresh context and compared by canonical semantic dump (no exporter in the oracle)",
   text="Every program of the declaration-pool grammar (plus export-specific declarations) that evaluates without error is printed with Value.Syntax under 7 option profiles (All, All+Docs, Final, Concrete, the cue eval / eval -a / export --out cue sets) at the root and at every top-level field, formatted, compiled stand-alone in a fresh context and compared with the original through a profile-specific projection of canon.",
   note="Trusts package canon and its per-profile projections. Five known exporter findings are listed in known_findings.jsonl (dangling references for sub-values, a mis-hoisted let, close() nesting, a reference cycle).",
   ref="DESIGN.md §3 C07"),
 "C08": dict(engine="enum",
   technique="exhaustive exploration of the repository corpus and of every single-gap (thorough: pairwise) layout mutation of a seed set through the real parser and formatter; position-free AST dump + comment inventory as oracle",
   text="Every CUE source of the repository (<=20 KiB) and every generated seed program, unmutated, plus every single-gap layout mutation (5 fillers: nothing, space, newline, blank line, line comment) at every token gap of the seed set and of a spread of corpus files: if the input parses, format.Source must succeed, the position-free syntax tree (literals by value) and the comment inventory per top-level declaration must be unchanged, formatting twice must equal formatting once; with Simplify() the output must parse, be idempotent and evaluate to the same canon value.",
   note="Trusts the reflection-based AST dump and package canon. Comment slots inside a declaration are not compared (only presence, text and owning top-level declaration). Known formatter findings (line comments in slot-less positions, trailing-comma idempotence, two -s rewrites) are in known_findings.jsonl.",
   ref="DESIGN.md §3 C08"),
 "C10": dict(engine="enum",
   technique="bounded-exhaustive enumeration of JSON documents (grammar by production, single-character edits of seeds) and of generator data through CUE's JSON decoder and encoder, with Go's encoding/json as independent reader",
   text="Every JSON document of the bounded grammar (all escape forms, surrogate pairs, raw U+2028/2029/FEFF, exponent spellings, -0, 1e400, 21-digit integers, duplicate and empty keys, whitespace variants, nesting to depth 2-3, concatenated streams) and every single-character edit of 30 seed documents is read by json.Extract/BuildExpr and by encoding/json: validity verdicts must agree and trees must be equal; the decoded value is marshalled again and re-read. Every generator value (hostile strings and keys, number boundary spellings, containers) is marshalled by Value.MarshalJSON, must be valid, free of HTML escaping, read back equal by encoding/json and by CUE itself.",
   note="Trusts Go encoding/json (UseNumber, token stream). Unclaimed: lone surrogate escapes, documents that are not valid UTF-8. Known finding: raw U+FEFF inside strings.",
   ref="DESIGN.md §3 C10"),
 "C11": dict(engine="enum",
   technique="bounded-exhaustive enumeration of strings over the YAML-significant alphabet (and implicit-type spellings, boundary numbers, JSON documents) through the real YAML encoder and decoders, both back ends; two independent third-party decoders as cross-check",
   text="Every string up to the length bound over 37 YAML-significant characters, every YAML 1.1/1.2 implicit-type spelling and the hostile pool, placed as scalar value, mapping key, sequence item and nested value, is encoded by yaml.Encode and must read back as the same data (strings byte-identical, number kind and value, order) through CUE's decoder, for the default goccy back end and the legacy yaml.v3 one; output that both independent decoders misread is also a violation. JSON documents must mean the same under the YAML and JSON decoders.",
   note="Trusts goccy/go-yaml and go.yaml.in/yaml/v3 only as a 2-of-2 cross-check. Known encoder/decoder findings per back end are listed in known_findings.jsonl.",
   ref="DESIGN.md §3 C11"),
 "C12": dict(engine="enum",
   technique="exhaustive exploration of a fixed data set x CLI matrix (encodings x input forms x flag sets) through the real command-line code (cmd.New(args).Run in-process; every 9th invocation replayed through the cue binary built from the tree and compared), with independent format readers",
   text="For every value of the data set (hostile strings and keys, boundary numbers, lists, nested tables, arrays of tables, mixed arrays, empty containers; TOML-safe subset for TOML) the loop export --out E -> independent reader == JSON tree, -o file.ext inference, export -> cue import -> export --out json == original, direct file / stdin / package-directory inputs, -e path and --escape is run for E in json, yaml, toml, cue; an exit-status truth table covers incomplete, conflicting and non-concrete inputs under every encoding.",
   note="Trusts encoding/json, goccy/go-yaml + yaml.v3 (2-of-2), pelletier/go-toml as independent readers (TOML key order ignored). In-process execution of the CLI is validated against the real binary on a fixed 1-in-9 sample of invocations (stdout and exit status must agree).",
   ref="DESIGN.md §3 C12"),
 "C13": dict(engine="enum",
   technique="bounded-exhaustive enumeration of composed JSON Schemas x instances through the real importer (Extract -> format -> compile -> Unify/Validate) and generator, with python jsonschema (Draft 2020-12) as independent oracle, one batch process per chunk",
   text="Every schema of the bounded composition grammar (one or two leaf keywords from a 38-entry alphabet; every structural keyword over a 12-schema sub-schema alphabet, alone and paired with leaf keywords; thorough adds ternary combinations and depth 3) is imported and each of 21 constant-biased instances is checked: instance & schema validates as concrete exactly when the independent validator accepts. Schemas the importer rejects are skipped and counted. For schemas without object-shaped keywords the JSON Schema generated back from the CUE must accept exactly the same instances.",
   note="Trusts python jsonschema 4.26. Unclaimed: prefixItems (not in the property's keyword list), the round trip through Generate for schemas with object-shaped keywords. Five known importer findings are listed in known_findings.jsonl.",
   ref="DESIGN.md §3 C13"),
 "C15": dict(engine="enum",
   technique="bounded-exhaustive enumeration of file sets and raw zip archives over a hostile name/mode/size alphabet through the real CheckFiles/Create/CheckZip/Unzip/CheckDir on the real file system (per-case scratch directory with sentinels)",
   text="Every file set of 1-2 paths (<=2 segments over 30 hostile segments, slash variants) plus the module file: Create succeeds exactly when CheckFiles has no error; every created archive passes CheckZip, extracts, and the extracted tree is byte-identical to the valid set and is accepted by CheckDir. Every raw zip of 1-3 entries with hostile names, modes (symlink, dir, device, setuid) and lying declared sizes: Unzip either fails or writes only regular files beneath the target with no more bytes than declared, nothing outside the target changes, and nothing is extracted that the file-list checker rejects. Declared sizes at limit-1/limit/limit+1 of the three size limits are probed through fake FileInfo and forged headers.",
   note="Runs on tmpfs (/dev/shm) when present, else /verif/.work/tmp. Documented asymmetries are honoured (CheckDir skips VCS directories). One known three-checker asymmetry (.hg_archival.txt) is listed in known_findings.jsonl.",
   ref="DESIGN.md §3 C15"),
 "C20": dict(engine="enum",
   technique="bounded-exhaustive enumeration of packages (schema+data declaration pool x file partitions, trim testdata with every literal replaced) through the real loader, trim.Files and evaluator; canonical value with defaults resolved compared before/after",
   text="Every package of <=k declarations from the schema+redundant-data pool, in every partition over 1-2 files and both file orders, and every trim testdata archive unmutated and with each literal replaced, is loaded as the command does (cue/load overlay), trimmed with trim.Files, printed, re-loaded and re-evaluated: the files must still build, canon with defaults resolved must be identical at every path (same data, same errors) and trimming the result again must change nothing.",
   note="Trusts package canon. Packages on which trim.Files itself returns an error are counted (trim-refused) and not compared. One known idempotence finding is listed in known_findings.jsonl.",
   ref="DESIGN.md §3 C20"),
 "C09": dict(engine="enum",
   technique="bounded-exhaustive enumeration of token strings / strings x quoting forms / literal spellings on the real scanner, parser and literal package (explicit-state, no sampling)",
   text="Every token string up to the length bound, every string over a hostile rune alphabet under every quoting form and every literal-candidate spelling up to the bound is executed on the real code and checked against position invariants, Unquote(Quote(s))==s and three-way validity agreement. Exhaustive within the stated alphabet/bound; says nothing beyond it.",
   note="Trusts: Go regexp/big for the tiny independent oracles; alphabets listed in coverage.sections. String forms checked on valid UTF-8 only (documented lossy otherwise).",
   ref="DESIGN.md §3 C09"),
}
PENDING = {}
ALL = ["C%02d" % i for i in range(1, 21)]
def main():
    checks = []
    for pid in ALL:
        c = CHECKS.get(pid)
        if not c: continue
        checks.append({
            "property_id": pid,
            "quick_cmd": f"./check {pid} --tier quick",
            "thorough_cmd": f"./check {pid} --tier thorough",
            "evidence_file": f"/verif/evidence/{pid}.json",
            "replay_cmd_template": f"./check {pid} --replay {{path}}",
            "engine": c["engine"],
            "level_claimed": {"category": c.get("category", "model_checking"), "text": c["text"], "design_ref": c["ref"]},
            "level_note": c["note"],
            "technique": c["technique"],
        })
    na = [{"property_id": p, "reason": PENDING.get(p, "check not built yet in this session (planned, see DESIGN.md §3); not claimed until its harness passes on the unchanged tree and has caught a seeded change")}
          for p in ALL if p not in CHECKS]
    m = {
      "version": 1,
      "setup_cmd": "./setup.sh",
      "hooks": {
        "guard": "verif",
        "enable": "go build -overlay /verif/.work/overlay*.json (harnesses, shims and instrumented copies of repository files are virtual files generated at check time; nothing is written into /repo)",
        "baseline_off_cmd": json.load(open("/root/.vp/BASELINE.json"))["cmd"],
        "source_commits": [],
        "add_only": True,
      },
      "engines": [
        {"name": "enum", "path": "/verif/src/core", "serves_properties": [p for p in ALL if CHECKS.get(p, {}).get("engine") == "enum"],
         "kind_free_text": "sharded bounded-exhaustive enumerator with per-case guards, evidence writer, known-findings and replay"},
      ],
      "checks": checks,
      "not_applicable": na,
      "notes": "All checks are bounded-exhaustive explorations on the real implementation (see DESIGN.md). exit 0 held / 1 VIOLATION / 2 ENGINE-ERROR.",
    }
    json.dump(m, open("/verif/MANIFEST.json", "w"), indent=1)
    print("checks:", [c["property_id"] for c in checks])
main()
