// Package c13: JSON Schema translation preserves which instances are valid.
//
// E1: every schema composed (nesting depth <= 2, thorough 3) from the claimed
// keyword subset x every instance of a constant-biased instance set.
// Oracle: python jsonschema (Draft 2020-12), one batch process per chunk.
package c13

import (
	"encoding/json"
	"fmt"
	"os"
	"os/exec"
	"path/filepath"
	"sort"
	"strings"

	"cuelang.org/go/cue"
	"cuelang.org/go/cue/cuecontext"
	"cuelang.org/go/cue/format"
	cuejson "cuelang.org/go/encoding/json"
	"cuelang.org/go/encoding/jsonschema"
	"cuelang.org/go/internal/verif/core"
)

func init() {
	core.Register(&core.Prop{
		ID: "C13",
		Rule: "E1 bounded-exhaustive: schemas = one or two keywords from a 45-entry leaf alphabet (type incl. lists, enum, const, numeric/string/array/object bounds, pattern, required, uniqueItems), and every structural keyword (properties, additionalProperties, patternProperties, propertyNames, items, contains, allOf, anyOf, oneOf, not, if/then/else, $defs+$ref) over a 12-schema sub-schema alphabet, alone and paired with a leaf keyword; x 21 instances. " +
			"Oracle: python jsonschema Draft202012Validator. Non-trivial = schemas that accept some and reject some instances.",
		Assumptions: []string{"python3-vt with jsonschema 4.26 is the independent validator", "schemas the importer rejects are skipped and counted (allowed by the property)", "instances avoid integral floats (1.0): JSON Schema treats them as integers, CUE keeps int and float distinct"},
		Run:         run, Replay: replay,
		RequireOutcomes: []string{"agree", "import-error"},
		BudgetQuick:     200, BudgetThorough: 1500,
		StallSeconds: 600,
	})
}

type kase struct {
	Schema   string `json:"schema"`
	Instance string `json:"instance,omitempty"`
	Variant  string `json:"variant,omitempty"`
}

var instances = []string{`null`, `true`, `0`, `1`, `1.5`, `2`, `3`, `""`, `"a"`, `"ab"`, `"b"`, `[]`, `[1]`, `[1,1]`, `[1,"a"]`, `{}`, `{"a":1}`, `{"a":"a"}`, `{"b":1}`, `{"a":1,"b":1}`, `{"a":{"a":1}}`}

type kw struct{ k, v string }

var leaves = []kw{
	{"type", `"null"`}, {"type", `"boolean"`}, {"type", `"integer"`}, {"type", `"number"`}, {"type", `"string"`}, {"type", `"array"`}, {"type", `"object"`},
	{"type", `["integer","string"]`}, {"type", `["number","null"]`}, {"type", `["object","array"]`},
	{"enum", `[1,"a"]`}, {"enum", `[null,2]`}, {"enum", `[[1],{}]`}, {"const", `0`}, {"const", `1`}, {"const", `"a"`}, {"const", `1.5`}, {"const", `{"a":1}`}, {"const", `[1]`}, {"const", `null`},
	{"minimum", `1`}, {"maximum", `2`}, {"exclusiveMinimum", `1`}, {"exclusiveMaximum", `2`}, {"multipleOf", `2`}, {"multipleOf", `0.5`}, {"minimum", `1.5`},
	{"minLength", `1`}, {"maxLength", `1`}, {"pattern", `"^a"`}, {"pattern", `"b$"`},
	{"required", `["a"]`}, {"required", `["a","b"]`}, {"minProperties", `1`}, {"maxProperties", `1`},
	{"minItems", `1`}, {"maxItems", `1`}, {"uniqueItems", `true`},
}

var subs = []string{`{"type":"integer"}`, `{"type":"string"}`, `{"minimum":1}`, `{"const":1}`, `{"required":["a"]}`, `true`, `false`, `{"enum":[1,"a"]}`, `{"type":"object"}`, `{"maxLength":1}`, `{}`, `{"type":["integer","null"]}`}

// structural returns structural keyword fragments (without the enclosing braces).
func structural(ss []string, full bool) []string {
	var out []string
	for _, a := range ss {
		out = append(out,
			`"properties":{"a":`+a+`}`, `"additionalProperties":`+a, `"patternProperties":{"^a":`+a+`}`, `"propertyNames":`+a,
			`"items":`+a, `"contains":`+a, `"not":`+a,
			`"properties":{"a":`+a+`},"additionalProperties":false`, `"patternProperties":{"^a":`+a+`},"additionalProperties":false`,
			`"properties":{"a":`+a+`},"required":["a"]`, `"$defs":{"d":`+a+`},"$ref":"#/$defs/d"`, `"$defs":{"d":`+a+`},"properties":{"a":{"$ref":"#/$defs/d"}}`,
			`"items":`+a+`,"minItems":1`, `"contains":`+a+`,"maxItems":1`,
			`"contains":`+a+`,"minContains":0`, `"contains":`+a+`,"maxContains":1`, `"contains":`+a+`,"minContains":2`, `"contains":`+a+`,"minContains":0,"maxContains":1`)
		for _, b := range ss {
			out = append(out,
				`"allOf":[`+a+`,`+b+`]`, `"anyOf":[`+a+`,`+b+`]`, `"oneOf":[`+a+`,`+b+`]`,
				`"properties":{"a":`+a+`,"b":`+b+`}`, `"properties":{"a":`+a+`},"additionalProperties":`+b, `"patternProperties":{"^a":`+a+`},"additionalProperties":`+b,
				`"patternProperties":{"^a":`+a+`,"b$":`+b+`}`, `"properties":{"a":`+a+`},"patternProperties":{"^[ab]":`+b+`}`,
				`"if":`+a+`,"then":`+b, `"if":`+a+`,"else":`+b, `"items":`+a+`,"contains":`+b)
			if full {
				for _, c := range ss[:6] {
					out = append(out, `"if":`+a+`,"then":`+b+`,"else":`+c, `"oneOf":[`+a+`,`+b+`,`+c+`]`, `"allOf":[`+a+`,{"not":`+b+`}],"anyOf":[`+c+`]`)
				}
			}
		}
	}
	return out
}

func allSchemas(r *core.Run, emit func(section, schema string)) {
	emit("L0", `{}`)
	emit("L0", `true`)
	emit("L0", `false`)
	for _, l := range leaves {
		emit("L0", `{"`+l.k+`":`+l.v+`}`)
	}
	for i, a := range leaves {
		for _, b := range leaves[i+1:] {
			if a.k == b.k {
				continue
			}
			emit("L1", `{"`+a.k+`":`+a.v+`,"`+b.k+`":`+b.v+`}`)
		}
	}
	st := structural(subs, false)
	for _, s := range st {
		emit("L2", `{`+s+`}`)
	}
	// three-member combinators over the first six sub-schemas
	for _, a := range subs[:6] {
		for _, b := range subs[:6] {
			for _, c := range subs[:6] {
				for _, kw := range []string{"allOf", "anyOf", "oneOf"} {
					emit("L2-ternary", `{"`+kw+`":[`+a+`,`+b+`,`+c+`]}`)
				}
			}
		}
	}
	for _, s := range st {
		for _, l := range leaves {
			if strings.Contains(s, `"`+l.k+`"`) {
				continue
			}
			if r.Quick() && !(l.k == "type" || l.k == "required" || l.k == "minimum" || l.k == "const") {
				continue
			}
			emit("L2+leaf", `{`+s+`,"`+l.k+`":`+l.v+`}`)
		}
	}
	if r.Thorough() {
		for _, s := range structural(subs, true) {
			emit("L2-full", `{`+s+`}`)
		}
		// depth 3: structural over structural(sub-alphabet of 4)
		inner := structural(subs[:4], false)
		var mids []string
		for i, s := range inner {
			if i%3 == 0 {
				mids = append(mids, `{`+s+`}`)
			}
		}
		for _, s := range structural(mids[:40], false) {
			emit("L3", `{`+s+`}`)
		}
	}
}

func run(r *core.Run) {
	var mine []string
	last := ""
	allSchemas(r, func(section, schema string) {
		if section != last {
			r.Section("schemas " + section)
			last = section
		}
		if r.Mine() {
			mine = append(mine, schema)
		}
	})
	// oracle in chunks
	const chunk = 400
	for i := 0; i < len(mine); i += chunk {
		if r.Expired() {
			return
		}
		end := i + chunk
		if end > len(mine) {
			end = len(mine)
		}
		verdicts, err := oracle(mine[i:end])
		if err != nil {
			r.EngineError("python oracle: " + err.Error())
			return
		}
		var gens, genOf, genWant []string
		for j, s := range mine[i:end] {
			c := kase{Schema: s}
			v := verdicts[j]
			r.Guard(c, func() {
				if g := check(r, c, v); g != "" {
					gens, genOf, genWant = append(gens, g), append(genOf, s), append(genWant, v)
				}
			})
		}
		if len(gens) > 0 {
			gv, err := oracle(gens)
			if err != nil {
				r.EngineError("python oracle (round trip): " + err.Error())
				return
			}
			for j := range gens {
				compareGenerated(r, genOf[j], gens[j], genWant[j], gv[j])
			}
		}
	}
}

func oracle(schemas []string) ([]string, error) {
	dir, err := os.MkdirTemp("/verif/.work/tmp", "c13-")
	if err != nil {
		return nil, err
	}
	defer os.RemoveAll(dir)
	var sb strings.Builder
	sb.WriteString(`{"schemas":[` + strings.Join(schemas, ",") + `],"instances":[` + strings.Join(instances, ",") + `]}`)
	in, out := filepath.Join(dir, "in.json"), filepath.Join(dir, "out.json")
	if err := os.WriteFile(in, []byte(sb.String()), 0o644); err != nil {
		return nil, err
	}
	cmd := exec.Command("python3-vt", "/verif/lib/jsoracle.py", in, out)
	if b, err := cmd.CombinedOutput(); err != nil {
		return nil, fmt.Errorf("%v: %s", err, b)
	}
	b, err := os.ReadFile(out)
	if err != nil {
		return nil, err
	}
	var res []string
	if err := json.Unmarshal(b, &res); err != nil {
		return nil, err
	}
	if len(res) != len(schemas) {
		return nil, fmt.Errorf("oracle returned %d verdict rows for %d schemas", len(res), len(schemas))
	}
	return res, nil
}

func replay(r *core.Run, raw json.RawMessage) {
	var c kase
	if err := json.Unmarshal(raw, &c); err != nil {
		r.EngineError(err.Error())
		return
	}
	v, err := oracle([]string{c.Schema})
	if err != nil {
		r.EngineError(err.Error())
		return
	}
	if g := check(r, kase{Schema: c.Schema}, v[0]); g != "" {
		gv, err := oracle([]string{g})
		if err != nil {
			r.EngineError(err.Error())
			return
		}
		compareGenerated(r, c.Schema, g, v[0], gv[0])
	}
}

// keywordsOf lists the keywords of a schema (for violation keys).
func keywordsOf(schema string) string {
	return keywords(schema) + tags(schema)
}

// tags marks schema features that key known findings / unclaimed fragments.
func tags(schema string) string {
	var x any
	json.Unmarshal([]byte(schema), &x)
	falseComb, container, propNames, allOf3, ifDisjoint, containsFalse := false, false, false, false, false, false
	// typeSet returns the set of JSON types a schema's "type" keyword allows
	typeSet := func(v any) map[string]bool {
		m, ok := v.(map[string]any)
		if !ok {
			return nil
		}
		set := map[string]bool{}
		switch t := m["type"].(type) {
		case string:
			set[t] = true
		case []any:
			for _, e := range t {
				if s, ok := e.(string); ok {
					set[s] = true
				}
			}
		default:
			return nil
		}
		if set["number"] {
			set["integer"] = true
		}
		return set
	}
	isContainer := func(v any) bool {
		switch v.(type) {
		case map[string]any, []any:
			return true
		}
		return false
	}
	var walk func(x any)
	walk = func(x any) {
		m, ok := x.(map[string]any)
		if !ok {
			return
		}
		for k, v := range m {
			switch k {
			case "allOf", "anyOf", "oneOf":
				if k == "allOf" && len(v.([]any)) >= 3 {
					allOf3 = true
				}
				for _, e := range v.([]any) {
					if b, ok := e.(bool); ok && !b {
						falseComb = true
					}
					walk(e)
				}
			case "not", "if", "then", "else":
				if b, ok := v.(bool); ok && !b {
					falseComb = true
				}
				if k == "if" {
					// a then-branch that no instance matching the if-branch can
					// satisfy (or an else-branch only such instances can)
					if it := typeSet(v); it != nil {
						if tt := typeSet(m["then"]); tt != nil {
							overlap := false
							for t := range it {
								if tt[t] || (t == "integer" && tt["number"]) {
									overlap = true
								}
							}
							if !overlap {
								ifDisjoint = true
							}
						}
						if et := typeSet(m["else"]); et != nil {
							outside := false
							for t := range et {
								if !it[t] {
									outside = true
								}
							}
							if !outside {
								ifDisjoint = true
							}
						}
					}
				}
				walk(v)
			case "const":
				container = container || isContainer(v)
			case "enum":
				for _, e := range v.([]any) {
					container = container || isContainer(e)
				}
			case "propertyNames":
				propNames = true
				walk(v)
			case "properties", "patternProperties", "$defs":
				for _, e := range v.(map[string]any) {
					walk(e)
				}
			case "items", "contains", "additionalProperties":
				if b, ok := v.(bool); ok && !b && k == "contains" {
					// minContains:0 makes contains vacuous; the translation is
					// list.MatchN(>=0, error("disallowed")), whose error argument
					// fails the call
					if mc, ok := m["minContains"].(float64); ok && mc == 0 {
						containsFalse = true
					}
				}
				walk(v)
			}
		}
	}
	walk(x)
	t := ""
	if falseComb {
		t += " has-false-in-combinator"
	}
	if container {
		t += " const-or-enum-of-container"
	}
	if propNames {
		t += " uses-propertyNames"
	}
	if allOf3 {
		t += " allOf-with-3-or-more-members"
	}
	if ifDisjoint {
		t += " if-branch-unsatisfiable-by-type"
	}
	if containsFalse {
		t += " contains-false-with-minContains-0"
	}
	return t
}

// objectShaped reports whether the schema uses object-shaped keywords, for
// which the round trip through jsonschema.Generate is not claimed.
func objectShaped(schema string) bool {
	for _, k := range []string{`"properties"`, `"patternProperties"`, `"additionalProperties"`, `"required"`, `"propertyNames"`, `"$ref"`, `"minProperties"`, `"maxProperties"`} {
		if strings.Contains(schema, k) {
			return true
		}
	}
	return false
}

func keywords(schema string) string {
	var x any
	json.Unmarshal([]byte(schema), &x)
	set := map[string]bool{}
	var walk func(x any)
	walk = func(x any) {
		switch v := x.(type) {
		case map[string]any:
			for k, e := range v {
				if k != "a" && k != "b" && k != "d" && k != "^a" && k != "^[ab]" {
					set[k] = true
				}
				walk(e)
			}
		case []any:
			for _, e := range v {
				walk(e)
			}
		}
	}
	walk(x)
	var ks []string
	for k := range set {
		ks = append(ks, k)
	}
	sort.Strings(ks)
	return strings.Join(ks, "+")
}

func extract(ctx *cue.Context, schema string) (cue.Value, error) {
	v, _, err := extractText(ctx, schema)
	return v, err
}

// extractText also returns the formatted CUE source of the imported schema.
func extractText(ctx *cue.Context, schema string) (cue.Value, string, error) {
	e, err := cuejson.Extract("schema.json", []byte(schema))
	if err != nil {
		return cue.Value{}, "", fmt.Errorf("json: %v", err)
	}
	jv := ctx.BuildExpr(e)
	f, err := jsonschema.Extract(jv, &jsonschema.Config{StrictFeatures: true, DefaultVersion: jsonschema.VersionDraft2020_12})
	if err != nil {
		return cue.Value{}, "", err
	}
	b, err := format.Node(f, format.Simplify())
	if err != nil {
		return cue.Value{}, "", err
	}
	sv := ctx.CompileBytes(b, cue.Filename("generated.cue"))
	if err := sv.Err(); err != nil {
		return cue.Value{}, string(b), fmt.Errorf("generated CUE does not compile: %v\n%s", err, b)
	}
	return sv, string(b), nil
}

// check compares the verdicts for one schema and returns the JSON Schema
// generated back from the extracted CUE ("" if none) for the round-trip check.
func check(r *core.Run, c kase, verdict string) (generated string) {
	if verdict == "E" {
		r.Outcome("oracle-rejects-schema")
		return
	}
	ctx := cuecontext.New()
	sv, text, err := extractText(ctx, c.Schema)
	if err != nil {
		r.Outcome("import-error")
		r.Count("import_errors", 1)
		return
	}
	// a branch of if/then/else that the importer found unsatisfiable becomes
	// error("disallowed") inside matchIf (see known_findings.jsonl)
	extraTag := ""
	if strings.Contains(text, "matchIf(") && strings.Contains(text, `error("disallowed")`) {
		extraTag = " matchIf-with-disallowed-branch"
	}
	nAcc := 0
	rowOK := true
	for i, inst := range instances {
		ie, _ := cuejson.Extract("instance.json", []byte(inst))
		iv := ctx.BuildExpr(ie)
		got := iv.Unify(sv).Validate(cue.Concrete(true)) == nil
		want := verdict[i] == '1'
		r.Trans(1)
		if want {
			nAcc++
		}
		if got != want {
			rowOK = false
			r.Violation(fmt.Sprintf("verdict differs [%s%s] cue=%v spec=%v: %s on %s", keywordsOf(c.Schema), extraTag, got, want, c.Schema, inst),
				kase{Schema: c.Schema, Instance: inst}, fmt.Sprintf("schema %s\ninstance %s\nCUE says valid=%v, JSON Schema says valid=%v\ngenerated CUE: %v", c.Schema, inst, got, want, sv))
			break
		}
	}
	if !rowOK {
		return
	}
	r.Outcome("agree")
	r.State(c.Schema)
	if nAcc > 0 && nAcc < len(instances) {
		r.Nontrivial()
		r.Sample(map[string]any{"schema": c.Schema, "instances_valid": nAcc, "of": len(instances)})
	}
	// round trip: CUE -> JSON Schema -> CUE
	if objectShaped(c.Schema) {
		// jsonschema.Generate renders an untyped schema as anyOf over the six
		// types and keeps only {"type":"object"} for the object branch, so
		// properties/required/patternProperties/additionalProperties are
		// lost in very many combinations: fragment removed from the claim.
		r.Unclaimed("round trip through Generate for schemas with object-shaped keywords")
		return
	}
	syn := sv.Syntax()
	data, err := format.Node(syn)
	if err != nil {
		return
	}
	sv2 := ctx.CompileBytes(data)
	gen, err := jsonschema.Generate(sv2, &jsonschema.GenerateConfig{Version: jsonschema.VersionDraft2020_12})
	if err != nil {
		r.Outcome("generate-error")
		return
	}
	gj, err := ctx.BuildExpr(gen).MarshalJSON()
	if err != nil {
		r.Outcome("generate-error")
		return
	}
	return string(gj)
}

func compareGenerated(r *core.Run, schema, gj, verdict, gv string) {
	if gv == "E" {
		r.Violation(fmt.Sprintf("generated JSON Schema is not a valid schema [%s]: %s", keywordsOf(schema), schema), kase{Schema: schema, Variant: "roundtrip"}, fmt.Sprintf("generated: %s", gj))
		return
	}
	if gv != verdict {
		i := 0
		for i < len(gv) && gv[i] == verdict[i] {
			i++
		}
		r.Violation(fmt.Sprintf("generated JSON Schema accepts different instances [%s]: %s on %s", keywordsOf(schema), schema, instances[i]), kase{Schema: schema, Variant: "roundtrip"},
			fmt.Sprintf("original  %s -> %s\ngenerated %s -> %s", schema, verdict, gj, gv))
		return
	}
	r.Outcome("roundtrip-agree")
}
