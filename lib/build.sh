#!/bin/bash
# build.sh <ID>: (re)build the harness binary that serves property ID from the
# current /repo working tree; prints the binary path.
set -eu
. /verif/lib/env.sh
ID="$1"
# seedtest/muttest hold the lock around "modify /repo - build - run - revert"
if [ -z "${VERIF_BUILD_LOCKED:-}" ]; then exec 9>"$WORK/build.lock"; flock 9; fi
case "$ID" in
  C18) KIND=test18;;
  C19) KIND=inst; CFG=c19; MAINPKG=vhc19; RACE=1; TARGETS="internal/core/runtime:index.go,imports.go cue:decode.go internal/core/convert:go.go internal/core/adt:context.go cue/token:position.go";;
  C16) KIND=inst; CFG=c16; MAINPKG=vhc16; MAPARG="-map os=cuelang.org/go/internal/verif/shim/vos,github.com/rogpeppe/go-internal/lockedfile=cuelang.org/go/internal/verif/shim/vlockedfile"; TARGETS="mod/modcache:fetch.go,cache.go mod/modzip:zip.go internal/robustio:robustio.go,robustio_other.go internal/par:work.go";;
  C17) KIND=inst; CFG=c17; MAINPKG=vhc17; RACE=1; TARGETS="internal/par:work.go,queue.go internal/mod/modpkgload:pkgload.go internal/mod/modload:tidy.go,query.go internal/mod/modrequirements:requirements.go";;
  C14) KIND=inst; CFG=c14; MAINPKG=vhc14; TARGETS="internal/par:work.go internal/mod/mvs:mvs.go";;
  *) KIND=plain;;
esac
case "$KIND" in
  plain)
    /verif/lib/gen_overlay.py "$WORK/overlay.json" >&2
    (cd /repo && go build -overlay "$WORK/overlay.json" -o "$WORK/bin/verifh" ./internal/verif/cmd/verifh) >&2
    if [ "$ID" = C12 ] || [ "${VERIF_BUILD_CUE:-}" = 1 ]; then
      (cd /repo && go build -o "$WORK/bin/cue" ./cmd/cue) >&2
    fi
    echo "$WORK/bin/verifh";;
  inst)
    /verif/lib/gen_overlay.py "$WORK/overlay.json" >&2
    (cd /repo && go build -overlay "$WORK/overlay.json" -o "$WORK/bin/instrument" ./internal/verif/cmd/instrument) >&2
    rm -rf "$WORK/inst/$CFG"; mkdir -p "$WORK/inst/$CFG"
    "$WORK/bin/instrument" -out "$WORK/inst/$CFG" ${MAPARG:-} $TARGETS > "$WORK/inst/$CFG/frag.json" || { echo "ENGINE-ERROR instrumenter failed" >&2; exit 2; }
    /verif/lib/gen_overlay.py "$WORK/overlay-$CFG.json" "$WORK/inst/$CFG/frag.json" >&2
    (cd /repo && go build -overlay "$WORK/overlay-$CFG.json" -o "$WORK/bin/verifh-$CFG" ./internal/verif/cmd/$MAINPKG) >&2
    if [ "${RACE:-}" = 1 ]; then
      (cd /repo && go build -race -overlay "$WORK/overlay-$CFG.json" -o "$WORK/bin/verifh-$CFG-race" ./internal/verif/cmd/$MAINPKG) >&2
    fi
    echo "$WORK/bin/verifh-$CFG";;
  test18)
    /verif/lib/gen_overlay.py "$WORK/overlay.json" >&2
    (cd /repo && go test -c -vet=off -overlay "$WORK/overlay.json" -o "$WORK/bin/c18.test" ./internal/verif/t/c18) >&2
    echo "$WORK/bin/c18.test";;
esac
