// Package c19: Values are immutable: concurrent use gives sequential answers,
// no data races.
//
// Phase 1 (model checking, E2): every pair (and a core of triples) of API calls
// on a shared value, every schedule with <=k deviations at the
// synchronisation points of the instrumented files; each call's result must
// equal its sequential baseline and the shared value must be unchanged.
// Phase 2 (race monitor): the same call pairs run free on real goroutines in a
// -race build; the race detector works on happens-before, not timing, so an
// unsynchronised conflicting access between the two calls is reported whenever
// both accesses execute.
package c19

import (
	"encoding/json"
	"fmt"
	"os"
	"strings"
	"sync"
	"sync/atomic"
	"time"

	"cuelang.org/go/cue"
	"cuelang.org/go/cue/cuecontext"
	"cuelang.org/go/cue/format"
	"cuelang.org/go/encoding/yaml"
	"cuelang.org/go/internal/verif/canon"
	"cuelang.org/go/internal/verif/core"
	"cuelang.org/go/internal/verif/racelog"
	"cuelang.org/go/internal/verif/sched"
	"cuelang.org/go/internal/verif/shim/vsync"
)

func init() {
	core.Register(&core.Prop{
		ID: "C19",
		Rule: "E2: every unordered pair of 17 API calls (LookupPath, LookupPath with optional / any-string / any-index selectors, Fields iteration with Selector, List, Unify, FillPath, Validate, Validate(Concrete), Default, Syntax+format, Decode into struct / map, MarshalJSON, yaml.Encode, Subsume, CompileString on the same and on a second context) on each of 9 shared values, every schedule with <=2 deviations at the synchronisation points of the instrumented files (label index, import and type caches, decode field cache, convert cache, context generation counter, weak map, token.File); triples from a 6-call core (thorough). Race pass: the same pairs on real goroutines under the race detector. " +
			"Non-trivial = scenarios with >=2 schedules and a call that takes the slow path of the label index (fresh labels per execution).",
		Assumptions: []string{"scheduling points are the synchronisation operations of the instrumented files; plain memory accesses inside the evaluator are not interleaved by the explorer but are monitored by the race detector in the race pass (happens-before based, sound for the executed paths)",
			"a run of read-locked sections of one thread on one lock is explored as one block (sched.CoalesceReads): the number of label look-ups of the evaluator's field sorter depends on Go's map iteration order, which the harness does not own",
			"the race pass needs the binary built with -race (lib/build.sh does); without it the pass is reported as skipped and the run is not exhaustive"},
		Run: run, Replay: replay,
		RequireOutcomes: []string{"pair:ok"},
		BudgetQuick:     240, BudgetThorough: 1500,
		StallSeconds: 300,
	})
}

type kase struct {
	Value   int    `json:"value"`
	Calls   []int  `json:"calls"`
	Choices string `json:"choices,omitempty"`
	// Raw (race pass only): do not finalize the pattern constraints before the
	// value is shared
	Raw bool `json:"raw,omitempty"`
}

var programs = []string{
	// 0: struct with patterns, optional, definitions, hidden
	"#D: {x: int, y?: string}\n_h: 1\ns: {[=~\"^a\"]: int, a1: 1, b: \"s\", o?: int, r!: int}\nd: #D & {x: 1}\nl: [1, 2, 3]\nm: {p: 1, q: {r: \"z\"}}\n",
	// 1: marked disjunctions
	"s: *{a: 1} | {b: 2}\nd: *1 | 2 | 3\ne: (*\"x\" | \"y\") & string\nl: [1, 2]\nm: {p: d}\n",
	// 2: lists
	"l: [1, \"a\", {x: 1}, [2, 3]]\nol: [int, ...string]\ns: {a: l[0]}\nm: {p: len(l)}\n",
	// 3: references and structure sharing
	"base: {a: 1, b: {c: 2}}\ns: base\nt: base & {d: 3}\nu: s.b\nl: [base.a, t.d]\nm: {p: u.c}\n",
	// 4: incomplete
	"s: {a: int, b: a + 1, c: string}\nl: [s.a]\nm: {p: \"x-\\(s.c)\"}\n",
	// 5: with an error
	"s: {a: 1 & 2, b: 3}\nl: [1]\nm: {p: s.b}\n",
	// 6: comprehension and let
	"src: {x: 1, y: 2}\ns: {for k, v in src {\"\\(k)2\": v + 1}}\nlet L = src.x\nl: [L, L]\nm: {p: L}\n",
	// 7: closed structs and definitions with embedding
	"#A: {a: int}\n#B: {#A, b?: string}\ns: #B & {a: 1}\nc: close({z: 1})\nl: [s.a]\nm: {p: c.z}\n",
	// 8: pattern constraints with a label alias, open list
	"s: {[Name=string]: {name: Name, tag: \"t-\\(Name)\"}, ak1: {}}\nl: [...int] & [1, 2]\nm: {p: s.ak1.name}\n#Def: {a: 1}\n_hid: 2\n",
}

var seq atomic.Int64

// Values derived by the calls of one execution (CompileSameCtx): after the
// calls have finished they are unified with each other and the result must be
// what a sequential run gives - this makes state that is private to a derived
// value but drawn from a shared counter (let labels) observable.
var (
	depMu     sync.Mutex
	deposited = map[int64]cue.Value{}
)

func deposit(id int64, v cue.Value) {
	depMu.Lock()
	deposited[id] = v
	depMu.Unlock()
}

func resetDeposits() {
	depMu.Lock()
	deposited = map[int64]cue.Value{}
	depMu.Unlock()
}

// derivedString unifies the values deposited under ids (in that order) and
// renders the result with the ids replaced by their position.
func derivedString(ids []int64) string {
	depMu.Lock()
	defer depMu.Unlock()
	var vs []cue.Value
	for _, id := range ids {
		if v, ok := deposited[id]; ok {
			vs = append(vs, v)
		}
	}
	if len(vs) < 2 {
		return ""
	}
	u := vs[0]
	for _, v := range vs[1:] {
		u = u.Unify(v)
	}
	b, err := u.MarshalJSON()
	out := string(b) + errClass(err)
	for i, id := range ids {
		out = strings.ReplaceAll(out, fmt.Sprint(id), fmt.Sprintf("N%d", i))
	}
	return out
}

// sequentialDerived is derivedString for the calls run one after the other.
func sequentialDerived(c kase) string {
	vsync.ResetAllMaps()
	resetDeposits()
	ctx := cuecontext.New()
	v := ctx.CompileString(programs[c.Value])
	ids := make([]int64, len(c.Calls))
	for i, ci := range c.Calls {
		ids[i] = seq.Add(1)
		calls[ci].fn(ctx, v, ids[i])
	}
	return derivedString(ids)
}

func init() {
	seq.Store(500000000)
	core.RegisterChild("c19raw", rawChild)
} // ids never collide with digits of results

type call struct {
	name string
	fn   func(ctx *cue.Context, v cue.Value, id int64) string
}

type decoded struct {
	S map[string]any `json:"s"`
	L []any          `json:"l"`
	// M has no tag: the CUE field m matches it only through the decoder's
	// case-insensitive fallback (a separate path through the shared field cache)
	M any
}

func errClass(err error) string {
	if err == nil {
		return "ok"
	}
	return "err"
}

var calls = []call{
	{"LookupPath", func(ctx *cue.Context, v cue.Value, id int64) string {
		a := v.LookupPath(cue.ParsePath("m.p"))
		b := v.LookupPath(cue.ParsePath(fmt.Sprintf("s.fresh%d", id)))
		return canon.New(ctx, canon.Opts{}).Canon(a) + fmt.Sprint(b.Exists())
	}},
	{"Fields", func(ctx *cue.Context, v cue.Value, id int64) string {
		var sb strings.Builder
		var walk func(x cue.Value, d int)
		walk = func(x cue.Value, d int) {
			it, err := x.Fields(cue.All(), cue.Patterns(true))
			if err != nil || d > 3 {
				return
			}
			for it.Next() {
				sb.WriteString(it.Selector().String() + ";")
				walk(it.Value(), d+1)
			}
		}
		walk(v, 0)
		return sb.String()
	}},
	{"List", func(ctx *cue.Context, v cue.Value, id int64) string {
		it, err := v.LookupPath(cue.ParsePath("l")).List()
		if err != nil {
			return "err"
		}
		var sb strings.Builder
		for it.Next() {
			sb.WriteString(fmt.Sprint(it.Value().IncompleteKind()) + ";")
		}
		return sb.String()
	}},
	{"Unify", func(ctx *cue.Context, v cue.Value, id int64) string {
		w := ctx.CompileString(fmt.Sprintf("m: extra%d: 1\n", id))
		u := v.Unify(w)
		return strings.ReplaceAll(canon.New(ctx, canon.Opts{}).Canon(u), fmt.Sprintf("extra%d", id), "extraN")
	}},
	{"FillPath", func(ctx *cue.Context, v cue.Value, id int64) string {
		u := v.FillPath(cue.ParsePath(fmt.Sprintf("m.fill%d", id)), 7)
		return strings.ReplaceAll(canon.New(ctx, canon.Opts{}).Canon(u), fmt.Sprintf("fill%d", id), "fillN")
	}},
	{"Validate", func(ctx *cue.Context, v cue.Value, id int64) string { return errClass(v.Validate()) }},
	{"ValidateConcrete", func(ctx *cue.Context, v cue.Value, id int64) string {
		return errClass(v.Validate(cue.Concrete(true)))
	}},
	{"Default", func(ctx *cue.Context, v cue.Value, id int64) string {
		d, _ := v.LookupPath(cue.ParsePath("s")).Default()
		return canon.New(ctx, canon.Opts{}).Canon(d)
	}},
	{"Syntax", func(ctx *cue.Context, v cue.Value, id int64) string {
		b, err := format.Node(v.Syntax(cue.All()))
		return string(b) + errClass(err)
	}},
	{"DecodeStruct", func(ctx *cue.Context, v cue.Value, id int64) string {
		var d decoded
		err := v.Decode(&d)
		return fmt.Sprint(d.L, len(d.S), d.M != nil, errClass(err))
	}},
	{"DecodeMap", func(ctx *cue.Context, v cue.Value, id int64) string {
		var m map[string]any
		err := v.LookupPath(cue.ParsePath("m")).Decode(&m)
		return fmt.Sprint(m, errClass(err))
	}},
	{"MarshalJSON", func(ctx *cue.Context, v cue.Value, id int64) string {
		b, err := v.LookupPath(cue.ParsePath("l")).MarshalJSON()
		return string(b) + errClass(err)
	}},
	{"YAML", func(ctx *cue.Context, v cue.Value, id int64) string {
		b, err := yaml.Encode(v.LookupPath(cue.ParsePath("m")))
		return string(b) + errClass(err)
	}},
	{"Subsume", func(ctx *cue.Context, v cue.Value, id int64) string {
		w := ctx.CompileString("m: _\n")
		return errClass(w.Subsume(v)) + errClass(v.Subsume(w))
	}},
	{"CompileSameCtx", func(ctx *cue.Context, v cue.Value, id int64) string {
		// a let: every compiled let draws a fresh id from the runtime's counter
		w := ctx.CompileString(fmt.Sprintf("let X = %d\nn%d: {a%d: X, b: \"v-\\(a%d)\"}\n", id, id, id, id))
		deposit(id, w)
		return errClass(w.Validate(cue.Concrete(true)))
	}},
	{"SelectorKinds", func(ctx *cue.Context, v cue.Value, id int64) string {
		// optional, any-string and any-index selectors: the answer is computed
		// on demand from the pattern constraints of the shared value
		show := func(x cue.Value) string {
			if !x.Exists() {
				return "absent;"
			}
			b, err := format.Node(x.Syntax(cue.All()))
			return strings.Join(strings.Fields(string(b)), " ") + errClass(err) + ";"
		}
		s := v.LookupPath(cue.ParsePath("s"))
		out := show(s.LookupPath(cue.MakePath(cue.AnyString)))
		out += show(s.LookupPath(cue.MakePath(cue.Str(fmt.Sprintf("aopt%d", id)).Optional())))
		out += show(s.LookupPath(cue.MakePath(cue.Str("ak1").Optional())))
		out += show(s.LookupPath(cue.MakePath(cue.Str(fmt.Sprintf("aopt%d", id)))))
		out += show(s.LookupPath(cue.MakePath(cue.AnyString)))
		out += show(v.LookupPath(cue.MakePath(cue.Str("l"), cue.AnyIndex)))
		out += show(v.LookupPath(cue.MakePath(cue.Def("#Def"), cue.Str("zz").Optional())))
		return out
	}},
	{"OtherContext", func(_ *cue.Context, v cue.Value, id int64) string {
		c2 := cuecontext.New()
		w := c2.CompileString(fmt.Sprintf("o%d: {x: 1, y: x + 1}\nl: [o%d.y]\n", id, id))
		b, err := w.LookupPath(cue.ParsePath("l")).MarshalJSON()
		return string(b) + errClass(err)
	}},
}

var tripleCore = []int{0, 1, 3, 4, 9, 14}

func run(r *core.Run) {
	sched.Stop = r.Expired // soft time budget: explorations end with Complete=false
	sched.CoalesceReads = true
	bound := 1
	if r.Thorough() {
		bound = 2
	}
	if os.Getenv("VERIF_PASS") == "extra" {
		racePass(r)
		return
	}
	// phase 1: cooperative exploration
	r.Section(fmt.Sprintf("pairs of %d calls x %d values, schedules with <=%d deviations", len(calls), len(programs), bound))
	for vi := range programs {
		if ov := os.Getenv("VERIF_C19_VALUE"); ov != "" && ov != fmt.Sprint(vi) {
			continue
		}
		for a := 0; a < len(calls); a++ {
			for b := a; b < len(calls); b++ {
				if !r.Mine() {
					continue
				}
				c := kase{Value: vi, Calls: []int{a, b}}
				r.Guard(c, func() { explore(r, c, bound) })
			}
		}
		if r.Expired() {
			return
		}
	}
	if r.Thorough() {
		r.Section("triples from the 6-call core x values, <=2 deviations")
		for vi := range programs {
			for _, a := range tripleCore {
				for _, b := range tripleCore {
					for _, cc := range tripleCore {
						if !(a <= b && b <= cc) || !r.Mine() {
							continue
						}
						c := kase{Value: vi, Calls: []int{a, b, cc}}
						r.Guard(c, func() { explore(r, c, 2) })
					}
				}
			}
		}
	}
	if os.Getenv("VERIF_EXTRA_BIN") == "" {
		r.Section("race pass")
		r.Unclaimed("race pass skipped: no -race build of the harness was given")
	}
}

// racePass (phase 2) runs in the -race build of the harness.
func racePass(r *core.Run) {
	if r.Thorough() {
		raceReps = 40
	}
	r.Section(fmt.Sprintf("race pass: every pair x %d repetitions on real goroutines under the race detector", raceReps))
	if !raceEnabled {
		r.EngineError("race pass requested in a binary built without -race")
		return
	}
	for vi := range programs {
		for a := 0; a < len(calls); a++ {
			for b := a; b < len(calls); b++ {
				if !r.Mine() {
					continue
				}
				c := kase{Value: vi, Calls: []int{a, b}}
				r.Guard(c, func() { racePair(r, c) })
			}
		}
	}
	// the known lazy-finalization race, in a helper process
	if r.Mine() {
		c := kase{Value: 0, Calls: []int{1, 1}, Raw: true}
		r.Guard(c, func() { rawCase(r, c) })
	}
}

func replay(r *core.Run, raw json.RawMessage) {
	var c kase
	if err := json.Unmarshal(raw, &c); err != nil {
		r.EngineError(err.Error())
		return
	}
	sched.CoalesceReads = true
	explore(r, c, 2)
	if raceEnabled {
		racePair(r, c)
	}
}

func keyOf(kind string, c kase) string {
	var names []string
	for _, i := range c.Calls {
		names = append(names, calls[i].name)
	}
	return fmt.Sprintf("%s: value %d, calls %s", kind, c.Value, strings.Join(names, " || "))
}

// baseline: each call alone on a fresh identical value.
func baseline(vi, ci int) string {
	vsync.ResetAllMaps()
	ctx := cuecontext.New()
	v := ctx.CompileString(programs[vi])
	return calls[ci].fn(ctx, v, baselineID)
}

const baselineID = 987654321

func norm(s string) string { return s }

func explore(r *core.Run, c kase, bound int) {
	want := make([]string, len(c.Calls))
	for i, ci := range c.Calls {
		want[i] = strings.ReplaceAll(baseline(c.Value, ci), fmt.Sprint(baselineID), "N")
	}
	wantDerived := sequentialDerived(c)
	nExec := 0
	res := sched.Explore(bound, 200000, 400000, func() (func(), func(*sched.S) bool) {
		vsync.ResetAllMaps()
		resetDeposits()
		ctx := cuecontext.New()
		v := ctx.CompileString(programs[c.Value])
		cn := canon.New(ctx, canon.Opts{})
		before := cn.Canon(v)
		got := make([]string, len(c.Calls))
		ids := make([]int64, len(c.Calls))
		for i := range ids {
			ids[i] = seq.Add(1)
		}
		body := func() {
			var wg vwg
			for i, ci := range c.Calls {
				i, ci := i, ci
				wg.add()
				sched.Go(func() {
					defer wg.done()
					got[i] = calls[ci].fn(ctx, v, ids[i])
				})
			}
			wg.wait()
		}
		check := func(s *sched.S) bool {
			nExec++
			r.Alive()
			fail := func(kind, detail string) bool {
				var ch []int
				for _, p := range s.Points {
					ch = append(ch, p.Chosen)
				}
				c2 := c
				c2.Choices = fmt.Sprint(ch)
				r.Violation(keyOf(kind, c), c2, fmt.Sprintf("choice sequence %v\n%s", ch, detail))
				return false
			}
			switch {
			case s.Deadlock:
				return fail("deadlock", "")
			case s.Horizon:
				return fail("step horizon exceeded", "")
			case s.Panic != "":
				return fail("panic: "+firstLine(s.Panic), s.Panic)
			}
			for i := range got {
				g := strings.ReplaceAll(got[i], fmt.Sprint(ids[i]), "N")
				if g != want[i] {
					return fail(fmt.Sprintf("call %s returns a different answer than when run alone", calls[c.Calls[i]].name), fmt.Sprintf("alone:      %s\nconcurrent: %s", want[i], g))
				}
			}
			if after := cn.Canon(v); after != before {
				return fail("shared value changed", fmt.Sprintf("before: %s\nafter:  %s", before, after))
			}
			if d := derivedString(ids); d != wantDerived {
				return fail("values derived concurrently do not unify as the sequentially derived ones", fmt.Sprintf("sequential: %s\nconcurrent: %s", wantDerived, d))
			}
			return true
		}
		return body, check
	})
	if res.EngineError != "" {
		r.EngineError(keyOf(res.EngineError, c))
		return
	}
	r.Trans(int(res.Points))
	r.Trace(res.Executions)
	r.Count("schedules", res.Executions)
	if !res.Complete {
		r.Count("scenarios_cut_by_budget", 1)
	}
	r.Outcome("pair:ok")
	if res.Executions >= 2 {
		r.Nontrivial()
		r.Sample(map[string]any{"scenario": keyOf("", c), "schedules": res.Executions, "max_choice_points": res.MaxPointsPerExec, "complete": res.Complete})
	}
	r.State(keyOf("", c))
}

func firstLine(s string) string {
	if i := strings.IndexByte(s, '\n'); i >= 0 {
		s = s[:i]
	}
	if len(s) > 120 {
		s = s[:120]
	}
	return s
}

// vwg is a join under the scheduler (a counter with a scheduler-visible wait).
type vwg struct{ n int }

func (w *vwg) add()  { w.n++ }
func (w *vwg) done() { w.n-- }
func (w *vwg) wait() {
	if s := sched.Cur(); s != nil {
		s.Point(&sched.Op{Kind: "join", Enabled: func() bool { return w.n == 0 }})
	}
}

// ---- race pass ----

// raceReps is the number of times every pair runs on real goroutines. The
// detector reports a racy pair only when the real schedule exposes it (about
// one run in ten for an access pattern shielded by atomics), so each pair is
// repeated.
var raceReps = 12

func racePair(r *core.Run, c kase) {
	key, detail := racePairCore(c)
	r.Trans(raceReps)
	if key != "" {
		r.Violation(keyOf(key, c), c, detail)
		return
	}
	r.Outcome("race:none")
}

// prewalk finalizes the pattern constraints of v in the calling goroutine.
// Iterator.Next finalizes them lazily, which is a known race of the unchanged
// tree (known_findings.jsonl) that can corrupt the evaluator's state and kill
// the process; every case but the dedicated raw one starts from a value whose
// pattern constraints are already finalized, so that the free-running pass
// stays usable for finding other races.
func prewalk(x cue.Value, d int) {
	it, err := x.Fields(cue.All(), cue.Patterns(true))
	if err != nil || d > 4 {
		return
	}
	for it.Next() {
		prewalk(it.Value(), d+1)
	}
}

// racePairCore runs the calls of c on real goroutines raceReps times and
// returns a violation key and detail ("" if nothing was seen).
func racePairCore(c kase) (key, detail string) {
	before := racelog.Reports()
	wantDerived := sequentialDerived(c)
	want := make([]string, len(c.Calls))
	for i, ci := range c.Calls {
		want[i] = strings.ReplaceAll(baseline(c.Value, ci), fmt.Sprint(baselineID), "N")
	}
	for rep := 0; rep < raceReps; rep++ {
		// cold process-wide caches for every repetition: a cache that is filled
		// on first use is shared mutable state exactly once per key
		vsync.ResetAllMaps()
		resetDeposits()
		ctx := cuecontext.New()
		v := ctx.CompileString(programs[c.Value])
		if !c.Raw {
			prewalk(v, 0)
		}
		start := make(chan struct{})
		var wg sync.WaitGroup
		ids := make([]int64, len(c.Calls))
		got := make([]string, len(c.Calls))
		for i, ci := range c.Calls {
			i, ci := i, ci
			id := seq.Add(1)
			ids[i] = id
			wg.Add(1)
			go func() {
				defer wg.Done()
				<-start
				got[i] = calls[ci].fn(ctx, v, id)
			}()
		}
		close(start)
		wg.Wait()
		if !c.Raw {
			for i := range got {
				if g := strings.ReplaceAll(got[i], fmt.Sprint(ids[i]), "N"); g != want[i] {
					return fmt.Sprintf("call %s returns a different answer than when run alone (free run)", calls[c.Calls[i]].name), fmt.Sprintf("alone:      %s\nconcurrent: %s", want[i], g)
				}
			}
		}
		if d := derivedString(ids); d != wantDerived {
			return "values derived concurrently do not unify as the sequentially derived ones (free run)", fmt.Sprintf("sequential: %s\nconcurrent: %s", wantDerived, d)
		}
	}
	if n := racelog.Reports() - before; n > 0 {
		rep := racelog.Last()
		return "data race: " + racelog.Key(rep), rep
	}
	return "", ""
}

// rawChild runs in a helper process (the same -race build): the one case that
// exercises the known lazy-finalization race, isolated because that race can
// kill the process.
func rawChild(in []byte) []byte {
	var c kase
	if err := json.Unmarshal(in, &c); err != nil {
		return []byte("bad request")
	}
	raceReps = 40
	key, detail := racePairCore(c)
	b, _ := json.Marshal(map[string]string{"key": key, "detail": detail})
	return b
}

func rawCase(r *core.Run, c kase) {
	ch := core.NewChild("c19raw", 300*time.Second)
	defer ch.Close()
	b, _ := json.Marshal(c)
	out, died, se := ch.Call(b)
	r.Trans(40)
	if died {
		r.Violation(keyOf("data race: the helper process crashed in the case that exercises [lazy-finalize-in-Iterator.Next]", c), c, se)
		return
	}
	var res map[string]string
	json.Unmarshal(out, &res)
	if res["key"] != "" {
		r.Violation(keyOf(res["key"], c), c, res["detail"])
		return
	}
	r.Outcome("race:none")
}
