// Package canon computes an order-insensitive, representation-free semantic
// dump of a cue.Value, used as the oracle of metamorphic checks (C01, C07,
// C18, C19, C20). It does not use the exporter.
//
// What is recorded per node (path):
//   - error class: none / incomplete (IncompleteError, CycleError) / structural
//     cycle / error — never message text;
//   - IncompleteKind mask;
//   - concrete scalars: kind and exact value (numbers as big.Rat);
//   - non-concrete scalar-like values: behaviour against a probe alphabet of
//     atoms (unify succeeds / fails / incomplete) — so `int & >=0` and `uint`
//     are the same — plus the default (if any);
//   - disjunctions with struct/list members: the sorted set of canon(disjunct),
//     plus the default;
//   - structs: fields sorted by selector (regular/optional/required, hidden,
//     definitions), pattern constraints sorted by canon(pattern), closedness
//     observed behaviourally through Allows for a label alphabet;
//   - lists: elements in order, open/closed via Len and Allows(AnyIndex).
package canon

import (
	"fmt"
	"math/big"
	"sort"
	"strings"

	"cuelang.org/go/cue"
	"cuelang.org/go/internal/core/adt"
)

// Opts configures Canon.
type Opts struct {
	// Probes are CUE atom expressions compiled in the value's context.
	Probes []string
	// Labels is the label alphabet for closedness probes.
	Labels []string
	// Depth bounds recursion (0 = 8).
	Depth int
	// TakeDefaults resolves defaults at every node before dumping.
	TakeDefaults bool
	// DataOnly skips optional/required constraints, patterns, definitions and
	// hidden fields and closedness (used for "same data" comparisons).
	DataOnly bool
	// NoClosedness skips the Allows probes.
	NoClosedness bool
	// FieldOpts, if set, replaces the field selection options of struct dumps
	// (e.g. regular fields + definitions for the `cue eval` profile).
	FieldOpts []cue.Option
}

var DefaultProbes = []string{
	"null", "true", "false",
	"-1", "0", "1", "2", "3", "4", "10", "100",
	"0.0", "1.0", "1.5", "2.0", "2.5", "3.0",
	`""`, `"a"`, `"b"`, `"s"`, `"ab"`,
	`'a'`, `'s'`,
}

var DefaultLabels = []string{"a", "b", "c", "x", "zz"}

type cache struct {
	ctx    *cue.Context
	probes []cue.Value
}

// Canoner holds compiled probes for one context.
type Canoner struct {
	o      Opts
	ctx    *cue.Context
	probes []cue.Value
}

func New(ctx *cue.Context, o Opts) *Canoner {
	if o.Probes == nil {
		o.Probes = DefaultProbes
	}
	if o.Labels == nil {
		o.Labels = DefaultLabels
	}
	if o.Depth == 0 {
		o.Depth = 8
	}
	c := &Canoner{o: o, ctx: ctx}
	for _, p := range o.Probes {
		c.probes = append(c.probes, ctx.CompileString(p))
	}
	return c
}

// Canon returns the canonical dump of v.
func (c *Canoner) Canon(v cue.Value) string {
	var sb strings.Builder
	c.dump(&sb, v, c.o.Depth)
	return sb.String()
}

// ErrClass classifies the error state of the node itself (not children).
func ErrClass(v cue.Value) string {
	vx := v.Core().V
	if vx == nil {
		return ""
	}
	b := vx.Bottom()
	if b == nil {
		return ""
	}
	if b.ChildError {
		return "child"
	}
	switch b.Code {
	case adt.IncompleteError, adt.CycleError:
		return "incomplete"
	case adt.StructuralCycleError:
		return "structcycle"
	default:
		return "error"
	}
}

func (c *Canoner) dump(sb *strings.Builder, v cue.Value, depth int) {
	if c.o.TakeDefaults {
		v, _ = v.Default()
	}
	if depth <= 0 {
		sb.WriteString("…")
		return
	}
	ec := ErrClass(v)
	switch ec {
	case "incomplete", "structcycle", "error":
		sb.WriteString("⊥" + ec)
		return
	}
	k := v.IncompleteKind()
	isStruct := k == cue.StructKind
	isList := k == cue.ListKind
	if isStruct {
		if _, err := v.Fields(cue.All()); err != nil {
			isStruct = false
		}
	}
	if isList {
		if _, err := v.List(); err != nil {
			isList = false
		}
	}
	// Unresolved disjunction: the set of disjuncts with their default marks,
	// taken from the evaluated value (never re-evaluated from conjuncts).
	if vx := v.Core().V; vx != nil {
		if d, ok := vx.DerefValue().BaseValue.(*adt.Disjunction); ok && len(d.Values) > 1 {
			// Disjuncts subsumed by another disjunct (that is at least as
			// "default") do not change the set of values nor the default:
			// (A|B)&(A|B) = A | A&B | B is the same value as A | B. CUE does
			// not normalise these away, so canon does.
			vals := make([]cue.Value, len(d.Values))
			for i, dv := range d.Values {
				vals[i] = c.ctx.Encode(dv)
			}
			subOpts := []cue.Option{cue.Raw()}
			if c.o.DataOnly || c.o.NoClosedness {
				// closedness is not part of this projection
				subOpts = append(subOpts, cue.Schema())
			}
			drop := make([]bool, len(vals))
			for i := range vals {
				for j := range vals {
					if i == j || drop[j] {
						continue
					}
					iDef, jDef := i < d.NumDefaults, j < d.NumDefaults
					if iDef && !jDef {
						continue
					}
					if vals[j].Subsume(vals[i], subOpts...) == nil {
						// equal values: keep the lower index only
						if vals[i].Subsume(vals[j], subOpts...) == nil && iDef == jDef && i < j {
							continue
						}
						drop[i] = true
						break
					}
				}
			}
			var parts []string
			for i := range vals {
				if drop[i] {
					continue
				}
				var s2 strings.Builder
				if i < d.NumDefaults {
					s2.WriteString("*")
				}
				c.dump(&s2, vals[i], depth-1)
				parts = append(parts, s2.String())
			}
			sort.Strings(parts)
			parts = uniq(parts)
			if len(parts) == 1 {
				sb.WriteString(parts[0])
				return
			}
			sb.WriteString("or(" + strings.Join(parts, "|") + ")")
			return
		}
	}
	switch {
	case ec == "child" && !isStruct && !isList:
		sb.WriteString("⊥error")
	case isStruct:
		c.dumpStruct(sb, v, depth)
	case isList:
		c.dumpList(sb, v, depth)
	case isConcreteScalar(v):
		sb.WriteString(scalar(v))
	default:
		// non-concrete, scalar-like (or mixed): kind + behaviour on probes
		sb.WriteString("k(" + k.String() + ")")
		if k&^(cue.StructKind|cue.ListKind) != 0 && len(c.probes) > 0 {
			sb.WriteString("[")
			for _, p := range c.probes {
				u := v.Unify(p)
				switch ErrClass(u) {
				case "":
					if u.IsConcrete() {
						sb.WriteByte('1')
					} else {
						sb.WriteByte('?')
					}
				case "incomplete":
					sb.WriteByte('i')
				default:
					sb.WriteByte('0')
				}
			}
			sb.WriteString("]")
		}
		c.dumpDefault(sb, v, depth)
	}
}

func (c *Canoner) dumpDefault(sb *strings.Builder, v cue.Value, depth int) {
	if c.o.TakeDefaults {
		return
	}
	if d, has := v.Default(); has {
		sb.WriteString("*def=")
		c.dump(sb, d, depth-1)
	}
}

func isConcreteScalar(v cue.Value) bool {
	switch v.Kind() {
	case cue.NullKind, cue.BoolKind, cue.IntKind, cue.FloatKind, cue.StringKind, cue.BytesKind:
		return true
	}
	return false
}

func scalar(v cue.Value) string {
	switch v.Kind() {
	case cue.NullKind:
		return "null"
	case cue.BoolKind:
		b, _ := v.Bool()
		return fmt.Sprint(b)
	case cue.IntKind, cue.FloatKind:
		kind := "int:"
		if v.Kind() == cue.FloatKind {
			kind = "float:"
		}
		b, err := v.MarshalJSON()
		if err != nil {
			return kind + "?" + fmt.Sprint(v)
		}
		r, ok := new(big.Rat).SetString(string(b))
		if !ok {
			return kind + string(b)
		}
		return kind + r.RatString()
	case cue.StringKind:
		s, _ := v.String()
		return fmt.Sprintf("%q", s)
	case cue.BytesKind:
		b, _ := v.Bytes()
		return fmt.Sprintf("'%q'", b)
	}
	return "?"
}

func (c *Canoner) dumpStruct(sb *strings.Builder, v cue.Value, depth int) {
	opts := []cue.Option{cue.All(), cue.Patterns(true)}
	if c.o.DataOnly {
		opts = []cue.Option{}
	}
	if c.o.FieldOpts != nil {
		opts = c.o.FieldOpts
	}
	it, err := v.Fields(opts...)
	if err != nil {
		sb.WriteString("⊥error")
		return
	}
	var fields, pats []string
	for it.Next() {
		sel := it.Selector()
		var s2 strings.Builder
		if sel.LabelType() == cue.PatternConstraint || sel.Type()&cue.PatternConstraint != 0 {
			c.dump(&s2, sel.Pattern(), depth-1)
			s2.WriteString("]:")
			c.dump(&s2, it.Value(), depth-1)
			pats = append(pats, "["+s2.String())
			continue
		}
		if sel.String() == "_#def" {
			// The exporter's encoding of a closed value: {_#def, _#def: {...}}.
			// The reserved hidden field is an artefact, not user data.
			continue
		}
		s2.WriteString(sel.String())
		s2.WriteString(":")
		c.dump(&s2, it.Value(), depth-1)
		fields = append(fields, s2.String())
	}
	sort.Strings(fields)
	sort.Strings(pats)
	pats = uniq(pats)
	sb.WriteString("{")
	sb.WriteString(strings.Join(fields, ","))
	if len(pats) > 0 {
		sb.WriteString(";" + strings.Join(pats, ","))
	}
	if !c.o.DataOnly && !c.o.NoClosedness {
		sb.WriteString(";allow=")
		for _, l := range c.o.Labels {
			if v.Allows(cue.Str(l)) {
				sb.WriteByte('1')
			} else {
				sb.WriteByte('0')
			}
		}
	}
	sb.WriteString("}")
	if ErrClass(v) == "child" {
		sb.WriteString("!")
	}
}

func (c *Canoner) dumpList(sb *strings.Builder, v cue.Value, depth int) {
	it, err := v.List()
	if err != nil {
		sb.WriteString("⊥error")
		return
	}
	sb.WriteString("[")
	first := true
	for it.Next() {
		if !first {
			sb.WriteString(",")
		}
		first = false
		c.dump(sb, it.Value(), depth-1)
	}
	if !c.o.DataOnly {
		l := v.Len()
		if !l.IsConcrete() {
			sb.WriteString(",...")
			// element type of the open tail
			if e := v.LookupPath(cue.MakePath(cue.AnyIndex)); e.Exists() {
				c.dump(sb, e, depth-1)
			}
		}
	}
	sb.WriteString("]")
}

func uniq(s []string) []string {
	out := s[:0]
	for i, x := range s {
		if i == 0 || x != s[i-1] {
			out = append(out, x)
		}
	}
	return out
}
