#!/usr/bin/env python3
"""Generate a go build -overlay file mapping /verif/src/** to virtual files
under /repo/internal/verif/** (nothing is written into /repo).
Extra mappings (instrumented copies of repository files) are merged from
JSON files given on the command line."""
import json, os, sys
SRC = "/verif/src"; DST = "/repo/internal/verif"
repl = {}
for root, dirs, files in os.walk(SRC):
    for f in files:
        if f.endswith(".go") or f.endswith(".s"):
            p = os.path.join(root, f)
            repl[os.path.join(DST, os.path.relpath(p, SRC))] = p
out = sys.argv[1]
for extra in sys.argv[2:]:
    with open(extra) as fh:
        repl.update(json.load(fh)["Replace"])
with open(out, "w") as fh:
    json.dump({"Replace": repl}, fh, indent=1)
