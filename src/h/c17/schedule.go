package c17

import (
	"context"
	"fmt"
	"runtime"
	"sort"
	"strings"

	"cuelang.org/go/internal/mod/modimports"
	"cuelang.org/go/internal/mod/modload"
	"cuelang.org/go/internal/mod/modpkgload"
	"cuelang.org/go/internal/mod/modrequirements"
	"cuelang.org/go/internal/verif/core"
	"cuelang.org/go/internal/verif/sched"
	"cuelang.org/go/mod/module"
)

// (b) schedule space: the concurrent loader (par.Queue workers, par.Cache,
// atomic package flags, the module-graph loader) runs from instrumented
// copies under the controlled scheduler; every registry call is a scheduling
// point, which makes "randomised response order" exhaustive.

type schedUniverse struct {
	name string
	u    *Universe
}

func schedUniverses() []schedUniverse {
	mk := func(name string, imps []string, cfg regCfg, policy int) schedUniverse {
		reg := buildRegistry(cfg)
		return schedUniverse{name, &Universe{Main: mainModule(imps, initialDeps(reg, imps, policy)), Reg: reg}}
	}
	return []schedUniverse{
		// diamond: a reached from the main module and from b; b lifts a to v0.2.0, which imports c
		mk("diamond", []string{pa, pb}, regCfg{aVers: 1, a2imp: 1, bVers: 0, b1: 2}, 0),
		// chain: only b is imported; flags propagate main -> b -> a -> c
		mk("chain", []string{pb}, regCfg{aVers: 1, a2imp: 2, bVers: 0, b1: 2}, 0),
		// the same starting from stale and superfluous entries
		mk("diamond-stale", []string{pa, pb}, regCfg{aVers: 1, a2imp: 1, bVers: 1, b1: 1, b2: 2}, 3),
		// a local sub-package that carries the import
		mk("subpkg", []string{psub, pb}, regCfg{aVers: 1, bVers: 0, b1: 1}, 0),
		// a missing package next to a resolvable one (error path)
		mk("missing", []string{pa, "x.test/zz"}, regCfg{aVers: 1}, 0),
		// default major version chosen by the query, b imports a unversioned under its own default
		mk("majors", []string{pa + "@v1", pb}, regCfg{aVers: 1, bVers: 0, b1: 1, v1: true}, 0),
		// overlapping providers (ambiguity error path)
		mk("overlap", []string{pap, pa}, regCfg{aVers: 1, aSub: 2, overlap: true}, 0),
	}
}

func runSchedules(r *core.Run) {
	sched.Stop = r.Expired // soft time budget: explorations end with Complete=false
	tidyBound, loadBound, budget := 1, 2, 60000
	if r.Thorough() {
		tidyBound, loadBound, budget = 2, 3, 1500000
	}
	us := schedUniverses()
	old := runtime.GOMAXPROCS(0)
	defer runtime.GOMAXPROCS(old)
	r.Section(fmt.Sprintf("schedules of modload.Tidy with <=%d deviations and of modpkgload.LoadPackages with <=%d deviations, %d universes x {2,3} queue workers", tidyBound, loadBound, len(us)))
	for _, su := range us {
		for _, workers := range []int{2, 3} {
			for _, mode := range []string{"tidy", "load"} {
				// every worker takes part in every exploration and owns a share of
				// its first-level subtrees (sched.ExploreSharded)
				if mine := r.Mine(); (r.Only > 0 && !mine) || r.Expired() {
					continue
				}
				c := kase{Kind: "sched", U: su.u, Name: su.name, W: fmt.Sprintf("%s/%d", mode, workers)}
				bound := tidyBound
				if mode == "load" {
					bound = loadBound
				}
				r.Guard(c, func() { exploreSchedules(r, c, mode, workers, bound, budget, nil) })
			}
		}
	}
	runtime.GOMAXPROCS(old)
}

// loadState runs LoadPackages on the tidied requirements of u and renders the
// per-package state.
func loadState(u *Universe, deps map[string]Dep, yield bool) string {
	reg, err := newRegistry(u, Arr{})
	if err != nil {
		return "harness error: " + err.Error()
	}
	reg.yield = yield
	fsys := moduleFS(u.Main, Arr{})
	var roots []module.Version
	defaults := map[string]string{basePath(u.Main.Path): majorOf(u.Main.Path)}
	for _, d := range deps {
		roots = append(roots, module.MustNewVersion(d.Path, d.V))
		if d.Default {
			defaults[basePath(d.Path)] = majorOf(d.Path)
		}
	}
	module.Sort(roots)
	rs := modrequirements.NewRequirements(u.Main.Path, reg, roots, defaults)
	rootPkgs, err := modimports.AllImports(modimports.AllModuleFiles(fsys, "."))
	if err != nil {
		return "harness error: " + err.Error()
	}
	pkgs := modpkgload.LoadPackages(context.Background(), u.Main.Path, module.SourceLoc{FS: fsys, Dir: "."}, rs, reg, nil, rootPkgs, nil)
	var l []string
	for _, p := range pkgs.All() {
		var imps []string
		for _, ip := range p.Imports() {
			imps = append(imps, ip.ImportPath())
		}
		e := ""
		if p.Error() != nil {
			e = errClass(p.Error().Error())
		}
		l = append(l, fmt.Sprintf("%s flags=%v mod=%v err=%q imports=%v", p.ImportPath(), p.Flags(), p.Mod(), e, imps))
	}
	sort.Strings(l)
	return strings.Join(l, "\n")
}

func exploreSchedules(r *core.Run, c kase, mode string, workers, bound, budget int, only []int) {
	u := c.U
	runtime.GOMAXPROCS(workers)
	// reference: the default schedule (no deviation) under the scheduler. A
	// free-running reference run would leave queue workers behind that could
	// meet the next scheduled execution.
	var seqTidy outcome
	s0 := sched.Run(nil, 400000, false, func() { seqTidy, _ = tidy(u, Arr{}, true) })
	if s0.Deadlock || s0.Horizon || s0.Panic != "" {
		r.Violation(fmt.Sprintf("schedule: default schedule fails [%s %s]", c.Name, c.W), c, fmt.Sprintf("deadlock=%v horizon=%v panic=%s", s0.Deadlock, s0.Horizon, s0.Panic))
		return
	}
	var deps map[string]Dep
	if seqTidy.Err == "" {
		deps = seqTidy.Deps
		if defects, _ := check(u, deps); len(defects) > 0 {
			r.Violation(fmt.Sprintf("schedule: default schedule result is not tidy [%s]", c.Name), c, strings.Join(defects, "\n"))
			return
		}
	} else {
		deps = map[string]Dep{}
		for _, d := range u.Main.Deps {
			deps[d.Path] = d
		}
	}
	want := seqTidy.String()
	if seqTidy.Err != "" {
		want = "error: " + errClass(seqTidy.Err)
	}
	if mode == "load" {
		sched.Run(nil, 400000, false, func() { want = loadState(u, deps, true) })
	}
	outcomes := map[string]int{}
	mk := func() (func(), func(*sched.S) bool) {
		var got string
		body := func() {
			if mode == "tidy" {
				o, _ := tidy(u, Arr{}, true)
				got = o.String()
				if o.Err != "" {
					got = "error: " + errClass(o.Err)
				}
			} else {
				got = loadState(u, deps, true)
			}
		}
		check := func(s *sched.S) bool {
			fail := func(kind string) bool {
				var choices []int
				for _, p := range s.Points {
					choices = append(choices, p.Chosen)
				}
				c2 := c
				c2.Text = fmt.Sprint(choices)
				r.Violation(fmt.Sprintf("schedule: %s [%s %s]", kind, c.Name, c.W), c2,
					fmt.Sprintf("choice sequence %v (%d points)\nresult:\n%s\nexpected (sequential run):\n%s", choices, len(s.Points), got, want))
				return false
			}
			switch {
			case s.Deadlock:
				return fail("deadlock")
			case s.Horizon:
				return fail("step horizon exceeded (livelock)")
			case s.Panic != "":
				return fail("panic: " + s.Panic)
			}
			outcomes[got]++
			r.Alive()
			if got != want {
				return fail("result depends on the schedule")
			}
			return true
		}
		return body, check
	}
	if only != nil {
		body, check := mk()
		s := sched.Run(only, 400000, false, body)
		if s.Diverged != "" {
			r.EngineError("replay diverged: " + s.Diverged)
			return
		}
		check(s)
		return
	}
	res := sched.ExploreSharded(bound, 400000, budget, r.Own, mk)
	if res.EngineError != "" {
		r.EngineError(res.EngineError + " [" + c.Name + " " + c.W + "]")
		return
	}
	r.Trans(int(res.Points))
	r.Trace(res.Executions)
	r.Count("schedules", res.Executions)
	if !res.Complete {
		r.Count("schedule_subtrees_cut_by_budget", 1)
	}
	r.Outcome("schedule:ok")
	if r.ShardK == 0 {
		r.Nontrivial()
		r.State("sched:" + c.Name + c.W)
		r.Sample(map[string]any{"universe": c.Name, "mode/workers": c.W, "schedules_in_this_worker": res.Executions, "deviation_bound": bound, "complete": res.Complete, "max_choice_points": res.MaxPointsPerExec, "distinct_results": len(outcomes)})
	}
}

func replaySchedule(r *core.Run, c kase) {
	var mode string
	var workers int
	fmt.Sscanf(strings.Replace(c.W, "/", " ", 1), "%s %d", &mode, &workers)
	var choices []int
	for _, f := range strings.Fields(strings.Trim(c.Text, "[]")) {
		var x int
		fmt.Sscan(f, &x)
		choices = append(choices, x)
	}
	old := runtime.GOMAXPROCS(0)
	defer runtime.GOMAXPROCS(old)
	if c.Text == "" {
		// no schedule recorded (a stall): explore the whole space again
		bound := 1
		if mode == "load" {
			bound = 2
		}
		exploreSchedules(r, c, mode, workers, bound, 0, nil)
		return
	}
	exploreSchedules(r, c, mode, workers, 0, 0, choices)
}

var _ = modload.Tidy
