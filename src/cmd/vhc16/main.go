// Command vhc16 hosts the C16 harness; it is built with instrumented copies of
// mod/modcache/{fetch,cache}.go, mod/modzip/zip.go, internal/robustio and
// internal/par/work.go in which package os is the vos shim and lockedfile the
// vlockedfile shim (see lib/build.sh).
package main

import (
	"cuelang.org/go/internal/verif/core"
	_ "cuelang.org/go/internal/verif/h/c16"
)

func main() { core.Main() }
