// Package c17: cue mod tidy reaches a correct fixpoint and module files
// round-trip.
//
// (a) E1: every universe of a bounded generator (registry modules a, b, c with
// up to 3 versions, a second major version, a prefix-overlapping module,
// sub-packages that exist in some versions only; main module importing up to 2
// of 7 import paths, starting from 4 kinds of module file) through
// modload.Tidy / CheckTidy over an in-memory registry; oracle = invariants
// (oracle.go), idempotence, acceptance by CheckTidy, independence of file,
// import, deps and registry-listing order.
// (b) E2: the concurrent loader under the controlled scheduler (schedule.go).
// (c) E1: module file values through Format / Parse, and single edits of the
// formatted text through Parse (modfile.go).
package c17

import (
	"context"
	"encoding/json"
	"fmt"
	"os"
	"regexp"
	"runtime"
	"sort"
	"strings"

	"cuelang.org/go/internal/mod/modload"
	"cuelang.org/go/mod/modfile"
	"cuelang.org/go/internal/verif/core"
	"cuelang.org/go/internal/verif/racelog"
)

func init() {
	core.Register(&core.Prop{
		ID: "C17",
		Rule: "E1+E2 bounded-exhaustive: (a) every universe of the generator in gen.go (registry: a@v0 in 1-3 versions incl. a prerelease, a@v1, overlapping module a/p@v0, b@v0 in 1-2 versions each importing/requiring nothing, a or c at either version, c@v0 in 2 versions; main module importing <=2 of {a, b, c, a/p, a@v1, b/q, missing}; initial module file in {empty, lowest versions, superfluous entry, both}), deduplicated by the part of the registry reachable by name, x rearrangements {reverse files, reverse imports, split, merge, reverse deps, reverse registry listing}; the main module file also carries description / source / custom fields, which the file tidy writes back must still have; " +
			"(b) every schedule with <=2 deviations of Tidy and of LoadPackages on flag-propagation universes with 2 and 3 queue workers, registry calls being scheduling points; (c) every module file value of the generator in modfile.go (incl. description and an empty `deps: {}`) through Format/Parse and every single edit of the formatted text. " +
			"Non-trivial = universes where tidy changes the module file and a version is selected through a dependency's requirement, or the default major version mechanism is used.",
		Assumptions: []string{
			"registry modules' own module files list what their packages import (they are tidy) except where the generator says otherwise",
			"the oracle checks the tidied file (sufficient, no unused entry, MVS-consistent over the pruned graph main -> entries -> their requirements, versions justified by the previous file, the latest version or a requirement); it does not re-implement the resolver",
			"ambiguity is judged among listed modules only, as the loader does",
		},
		Run: run, Replay: replay,
		RequireOutcomes: []string{"tidy:ok", "tidy:error", "schedule:ok", "modfile:roundtrip-ok", "modfile:edit-rejected", "race:none"},
		BudgetQuick:     240, BudgetThorough: 1500,
		Workers: 0,
	})
}

type kase struct {
	Kind string    `json:"kind"` // universe | sched | modfile
	U    *Universe `json:"u,omitempty"`
	Name string    `json:"name,omitempty"`
	Text string    `json:"text,omitempty"`
	W    string    `json:"w,omitempty"`
}

func run(r *core.Run) {
	// The schedule phase comes first: goroutines left over from free-running
	// phases must not meet an active scheduler.
	if os.Getenv("VERIF_PASS") == "extra" {
		racePass(r)
		return
	}
	only := os.Getenv("VERIF_C17_ONLY") // debugging aid: run a single phase
	if only == "" || only == "sched" {
		runSchedules(r)
	}
	if only == "" || only == "univ" {
		runUniverses(r)
	}
	if only == "" || only == "modfile" {
		runModfiles(r)
	}
	if os.Getenv("VERIF_EXTRA_BIN") == "" {
		r.Section("race pass")
		r.Unclaimed("race pass skipped: no -race build of the harness was given")
	}
}

// racePass runs in the -race build of the harness: the loader runs free on
// real goroutines (the shims fall through to the real primitives) and the Go
// race detector watches the plain memory accesses that the cooperative
// scheduler does not interleave.
func racePass(r *core.Run) {
	us := schedUniverses()
	reps := 6
	if r.Thorough() {
		reps = 40
	}
	r.Section(fmt.Sprintf("race pass: Tidy, CheckTidy and LoadPackages on %d universes x {2,4,8} queue workers x %d repetitions on real goroutines under the race detector", len(us), reps))
	if !racelog.Enabled {
		r.EngineError("race pass requested in a binary built without -race")
		return
	}
	old := runtime.GOMAXPROCS(0)
	defer runtime.GOMAXPROCS(old)
	for _, su := range us {
		for _, workers := range []int{2, 4, 8} {
			if !r.Mine() {
				continue
			}
			c := kase{Kind: "race", U: su.u, Name: su.name, W: fmt.Sprint(workers)}
			r.Guard(c, func() { raceCase(r, c, workers, reps) })
		}
	}
}

func raceCase(r *core.Run, c kase, workers, reps int) {
	runtime.GOMAXPROCS(workers)
	before := racelog.Reports()
	var first string
	for i := 0; i < reps; i++ {
		o, _ := tidy(c.U, Arr{}, false)
		got := o.String()
		if o.Err != "" {
			got = "error: " + errClass(o.Err)
		} else {
			loadState(c.U, o.Deps, false)
			checkTidy(withDeps(c.U, o.Deps), Arr{})
		}
		if i == 0 {
			first = got
		} else if got != first {
			r.Violation(fmt.Sprintf("race pass: result differs between free runs [%s]", c.Name), c, got+"\nvs\n"+first)
			return
		}
		r.Trans(1)
	}
	if n := racelog.Reports() - before; n > 0 {
		rep := racelog.Last()
		r.Violation(fmt.Sprintf("data race: %s [%s]", racelog.Key(rep), c.Name), c, rep)
		return
	}
	r.Outcome("race:none")
}

func replay(r *core.Run, payload json.RawMessage) {
	var c kase
	if err := json.Unmarshal(payload, &c); err != nil {
		r.EngineError("bad payload: " + err.Error())
		return
	}
	switch c.Kind {
	case "universe":
		r.Guard(c, func() { checkUniverse(r, c) })
	case "sched":
		r.Guard(c, func() { replaySchedule(r, c) })
	case "modfile", "modfile-edit":
		r.Guard(c, func() { checkModfile(r, c) })
	case "race":
		var w int
		fmt.Sscan(c.W, &w)
		r.Guard(c, func() { raceCase(r, c, w, 40) })
	}
}

// tidy runs modload.Tidy on the universe in the given arrangement.
func tidy(u *Universe, arr Arr, yield bool) (outcome, *registry) {
	reg, err := newRegistry(u, arr)
	if err != nil {
		return outcome{Err: "harness: " + err.Error()}, nil
	}
	reg.yield = yield
	fsys := moduleFS(u.Main, arr)
	res, err := modload.Tidy(context.Background(), fsys, ".", reg, nil)
	if err != nil {
		return outcome{Err: err.Error()}, reg
	}
	out := outcome{Deps: map[string]Dep{}}
	for p, d := range res.Module.Deps {
		out.Deps[p] = Dep{Path: p, V: d.Version, Default: d.Default}
	}
	// what tidy writes back must still carry the other fields of the file
	orig, err := modfile.Parse(fsys["cue.mod/module.cue"].Data, "module.cue")
	if err != nil {
		return outcome{Err: "harness: " + err.Error()}, nil
	}
	data, err := modfile.Format(res.Module)
	if err != nil {
		out.Lost = "Format of the tidied module file fails: " + err.Error()
		return out, reg
	}
	back, err := modfile.Parse(data, "module.cue")
	switch {
	case err != nil:
		out.Lost = "the tidied module file does not parse: " + err.Error()
	case back.Module != orig.Module:
		out.Lost = "module"
	case back.Description != orig.Description:
		out.Lost = "description"
	case (back.Source == nil) != (orig.Source == nil) || (back.Source != nil && *back.Source != *orig.Source):
		out.Lost = "source"
	case fmt.Sprint(back.Custom) != fmt.Sprint(orig.Custom):
		out.Lost = "custom"
	case back.Language == nil || back.Language.Version != orig.Language.Version:
		out.Lost = "language.version"
	}
	return out, reg
}

func checkTidy(u *Universe, arr Arr) error {
	reg, err := newRegistry(u, arr)
	if err != nil {
		return err
	}
	return modload.CheckTidy(context.Background(), moduleFS(u.Main, arr), ".", reg, nil)
}

func withDeps(u *Universe, deps map[string]Dep) *Universe {
	u2 := *u
	u2.Main.Deps = nil
	for _, d := range deps {
		u2.Main.Deps = append(u2.Main.Deps, d)
	}
	sort.Slice(u2.Main.Deps, func(i, j int) bool { return u2.Main.Deps[i].Path < u2.Main.Deps[j].Path })
	return &u2
}

var reErrPkg = regexp.MustCompile(`"[^"]*"|x\.test/[a-z/@0-9.]*`)

// errClass reduces an error message to what every arrangement must agree on.
func errClass(msg string) string {
	switch {
	case strings.Contains(msg, "cannot find module providing package"):
		return "missing-package " + strings.Join(reErrPkg.FindAllString(msg, 2), " ")
	case strings.Contains(msg, "ambiguous import"):
		return "ambiguous-import"
	case strings.Contains(msg, "no files in package directory"):
		return "no-files"
	case strings.Contains(msg, "module not found"):
		return "module-not-found"
	}
	if i := strings.IndexByte(msg, ':'); i > 0 {
		return "other: " + msg[:i]
	}
	return "other: " + msg
}

var arrangements = []Arr{
	{RevFiles: true, RevImports: true, RevDeps: true, RevList: true, Split: true},
	{Split: true},
	{Merge: true, RevList: true, RevImports: true},
}

func checkUniverse(r *core.Run, c kase) {
	u := c.U
	base, _ := tidy(u, Arr{}, false)
	if os.Getenv("VERIF_DEBUG") != "" {
		fmt.Fprintf(os.Stderr, "DEBUG universe:\n%sDEBUG tidy: %s\n", describe(u), base)
		if base.Err == "" {
			again, _ := tidy(withDeps(u, base.Deps), Arr{}, false)
			fmt.Fprintf(os.Stderr, "DEBUG tidy(tidy): %s\nDEBUG CheckTidy(tidy): %v\n", again, checkTidy(withDeps(u, base.Deps), Arr{}))
		}
		fmt.Fprintf(os.Stderr, "DEBUG CheckTidy(original): %v\n", checkTidy(u, Arr{}))
	}
	viol := func(kind, detail string) {
		r.Violation(fmt.Sprintf("tidy: %s [%s]", kind, shape(u)), c, detail+"\n\nuniverse:\n"+describe(u)+"\nresult: "+base.String())
	}
	// order independence
	arrs := arrangements
	if r.Quick() {
		arrs = arrs[:1]
	}
	for _, arr := range arrs {
		o, _ := tidy(u, arr, false)
		if (o.Err == "") != (base.Err == "") || (o.Err == "" && o.String() != base.String()) || (o.Err != "" && errClass(o.Err) != errClass(base.Err)) {
			viol("outcome depends on the arrangement", fmt.Sprintf("arrangement %+v gives %s", arr, o.String()))
			return
		}
	}
	if base.Err != "" {
		r.Outcome("tidy:error")
		r.Outcome("tidy:error:" + strings.SplitN(errClass(base.Err), " ", 2)[0])
		r.State("err:" + errClass(base.Err))
		// an error must be justified: starting from an empty module file, a
		// package that the main module imports directly and that the latest
		// version of a module on its path provides cannot be "missing"
		if p, ok := strings.CutPrefix(errTail(base.Err, "cannot find module providing package "), ""); ok && p != "" && len(u.Main.Deps) == 0 && directImport(u, p) && providedByLatest(u, p) {
			viol("unjustified error", "tidy reports "+base.Err+"\nbut the latest version of a module on the import path provides the package")
			return
		}
		// the tidy check must not accept a module that cannot be tidied
		if err := checkTidy(u, Arr{}); err == nil {
			r.Unclaimed("CheckTidy accepts a module file for which Tidy fails")
		}
		return
	}
	r.Outcome("tidy:ok")
	r.State(base.String())
	if base.Lost != "" {
		viol("the tidied module file loses a field", base.Lost)
		return
	}
	defects, labels := check(u, base.Deps)
	for _, l := range labels {
		r.Outcome("shape:" + l)
	}
	nontrivial := len(labels) > 0
	if len(defects) > 0 {
		viol(strings.SplitN(defects[0], ":", 2)[0], strings.Join(defects, "\n"))
		return
	}
	// fixpoint
	u2 := withDeps(u, base.Deps)
	again, _ := tidy(u2, Arr{}, false)
	if again.String() != base.String() {
		viol("not idempotent", "tidy of the tidied module gives "+again.String())
		return
	}
	if err := checkTidy(u2, Arr{}); err != nil {
		viol("CheckTidy rejects the tidied module", err.Error())
		return
	}
	if r.Thorough() {
		if err := checkTidy(u2, arrangements[0]); err != nil {
			viol("CheckTidy rejects the tidied module in another arrangement", err.Error())
			return
		}
	}
	// the check on the original file
	orig := outcome{Deps: map[string]Dep{}}
	for _, d := range u.Main.Deps {
		orig.Deps[d.Path] = d
	}
	err := checkTidy(u, Arr{})
	if orig.String() != base.String() {
		r.Outcome("tidy:changed")
		if err == nil {
			// not demanded by the property (it speaks about tidy's own output)
			r.Unclaimed("CheckTidy accepts a module file that tidy changes")
		}
	} else {
		r.Outcome("tidy:unchanged")
		if err != nil {
			viol("CheckTidy rejects a module file that tidy leaves unchanged", err.Error())
			return
		}
	}
	if nontrivial {
		r.Nontrivial()
	}
	r.Sample(map[string]any{"universe": shape(u), "result": base.String()})
}

// shape is a short, stable description used in violation keys.
func shape(u *Universe) string {
	var imps []string
	for _, p := range u.Main.Pkgs {
		for _, f := range p.Files {
			imps = append(imps, f...)
		}
	}
	var deps []string
	for _, d := range u.Main.Deps {
		deps = append(deps, d.Path+" "+d.V)
	}
	return fmt.Sprintf("imports %s; deps %s; registry %s", strings.Join(imps, ","), strings.Join(deps, ","), regShape(u))
}

func regShape(u *Universe) string {
	var l []string
	for _, m := range u.Reg {
		s := strings.TrimPrefix(m.Path, "x.test/") + " " + m.V
		var x []string
		for _, p := range m.Pkgs {
			for _, f := range p.Files {
				for _, imp := range f {
					x = append(x, p.Dir+">"+strings.TrimPrefix(imp, "x.test/"))
				}
			}
			if p.Dir != "" {
				x = append(x, "+"+p.Dir)
			}
		}
		for _, d := range m.Deps {
			x = append(x, "req "+strings.TrimPrefix(d.Path, "x.test/")+" "+d.V)
		}
		if len(x) > 0 {
			s += "(" + strings.Join(x, " ") + ")"
		}
		l = append(l, s)
	}
	return strings.Join(l, ", ")
}

func describe(u *Universe) string {
	var b strings.Builder
	w := func(m Mod) {
		fmt.Fprintf(&b, "module %s %s\n", m.Path, m.V)
		for _, d := range m.Deps {
			fmt.Fprintf(&b, "  requires %s %s default=%v\n", d.Path, d.V, d.Default)
		}
		for _, p := range m.Pkgs {
			fmt.Fprintf(&b, "  package %q files %v\n", p.Dir, p.Files)
		}
	}
	w(u.Main)
	for _, m := range u.Reg {
		w(m)
	}
	return b.String()
}

// errTail returns what follows marker in msg up to the end of the line.
func errTail(msg, marker string) string {
	i := strings.Index(msg, marker)
	if i < 0 {
		return ""
	}
	t := msg[i+len(marker):]
	if j := strings.IndexAny(t, "\n "); j >= 0 {
		t = t[:j]
	}
	return t
}

func directImport(u *Universe, imp string) bool {
	for _, p := range u.Main.Pkgs {
		for _, f := range p.Files {
			for _, x := range f {
				if x == imp {
					return true
				}
			}
		}
	}
	return false
}

// providedByLatest reports whether the version that a registry query picks
// for some module on the import path contains the package.
func providedByLatest(u *Universe, imp string) bool {
	ipath, major := splitImport(imp)
	for prefix := ipath; prefix != "" && prefix != "."; prefix = parent(prefix) {
		q := prefix
		if major != "" {
			q = prefix + "@" + major
		}
		v := latest(u, q)
		if v == "" {
			continue
		}
		mj := major
		if mj == "" {
			mj = v[:strings.IndexByte(v, '.')]
		}
		m := u.lookup(prefix+"@"+mj, v)
		dir := strings.TrimPrefix(strings.TrimPrefix(ipath, prefix), "/")
		if m != nil && m.pkg(dir) != nil {
			return true
		}
	}
	return false
}
