#!/bin/bash
# Builds every harness binary once (warms GOCACHE) from files on disk only.
set -u
cd /verif
. /verif/lib/env.sh
rc=0
for id in C01 C12 C14 C16 C17 C18 C19; do
  /verif/lib/build.sh $id >/dev/null || rc=1
done
exit $rc
