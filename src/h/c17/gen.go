package c17

import (
	"encoding/json"
	"fmt"
	"sort"
	"strings"

	"cuelang.org/go/internal/verif/core"
)

// regCfg parametrises the registry of a generated universe.
type regCfg struct {
	aVers   int  // 0: a@v0 {v0.1.0}; 1: {v0.1.0, v0.2.0}; 2: {v0.1.0, v0.2.0, v0.3.0-rc.1}
	a2imp   int  // a v0.2.0 root package: 0 no import; 1 imports c, requires c v0.1.0; 2 imports c, requires c v0.2.0
	aSub    int  // package a/p: 0 nowhere; 1 in a v0.1.0 only; 2 in every version of a@v0
	bVers   int  // 0: b@v0 {v0.1.0}; 1: {v0.1.0, v0.2.0}
	b1, b2  int  // root package of b v0.1.0 / v0.2.0 (6, 7: imports a, requires a@v0 v0.1.0 and a@v1 v1.0.0 with the default flag on v0 / v1): 0 no import; 1 imports a, requires a v0.1.0; 2 imports a, requires a v0.2.0; 3 imports c, requires c v0.1.0; 4 imports c, requires c v0.2.0; 5 imports a but requires nothing (untidy dependency)
	v1      bool // a@v1 v1.0.0 exists
	overlap bool // module x.test/a/p@v0 v0.1.0 exists (provides the same import path as package p of a)
}

const (
	pa   = "x.test/a"
	pb   = "x.test/b"
	pc   = "x.test/c"
	pap  = "x.test/a/p"
	psub = "main.test/m/sub"
)

var mainMenu = []string{pa, pb, pc, pap, pa + "@v1", pa + "@v0", "x.test/zz", psub}

func rootPkg(imps ...string) Pkg { return Pkg{Dir: "", Files: [][]string{imps}} }

func buildRegistry(c regCfg) []Mod {
	var reg []Mod
	aVersions := []string{"v0.1.0", "v0.2.0", "v0.3.0-rc.1"}[:c.aVers+1]
	for _, v := range aVersions {
		m := Mod{Path: pa + "@v0", V: v}
		root := rootPkg()
		if v == "v0.2.0" && c.a2imp > 0 {
			root = rootPkg(pc)
			m.Deps = []Dep{{Path: pc + "@v0", V: []string{"", "v0.1.0", "v0.2.0"}[c.a2imp]}}
		}
		m.Pkgs = []Pkg{root}
		if c.aSub == 2 || (c.aSub == 1 && v == "v0.1.0") {
			m.Pkgs = append(m.Pkgs, Pkg{Dir: "p", Files: [][]string{{}}})
		}
		reg = append(reg, m)
	}
	if c.v1 {
		reg = append(reg, Mod{Path: pa + "@v1", V: "v1.0.0", Pkgs: []Pkg{rootPkg()}})
	}
	if c.overlap {
		reg = append(reg, Mod{Path: pap + "@v0", V: "v0.1.0", Pkgs: []Pkg{rootPkg()}})
	}
	bcfg := []int{c.b1, c.b2}[:c.bVers+1]
	for i, bc := range bcfg {
		m := Mod{Path: pb + "@v0", V: []string{"v0.1.0", "v0.2.0"}[i]}
		switch bc {
		case 0:
			m.Pkgs = []Pkg{rootPkg()}
		case 1, 2:
			v := "v0.1.0"
			if bc == 2 && c.aVers >= 1 {
				v = "v0.2.0"
			}
			m.Pkgs = []Pkg{rootPkg(pa)}
			m.Deps = []Dep{{Path: pa + "@v0", V: v}}
		case 3, 4:
			m.Pkgs = []Pkg{rootPkg(pc)}
			m.Deps = []Dep{{Path: pc + "@v0", V: []string{"v0.1.0", "v0.2.0"}[bc-3]}}
		case 5:
			m.Pkgs = []Pkg{rootPkg(pa)}
		case 6, 7:
			// requires two major versions of a with an explicit default and
			// imports a without a major version
			m.Pkgs = []Pkg{rootPkg(pa)}
			m.Deps = []Dep{{Path: pa + "@v0", V: "v0.1.0", Default: bc == 6}, {Path: pa + "@v1", V: "v1.0.0", Default: bc == 7}}
		}
		reg = append(reg, m)
	}
	for _, v := range []string{"v0.1.0", "v0.2.0"} {
		reg = append(reg, Mod{Path: pc + "@v0", V: v, Pkgs: []Pkg{rootPkg()}})
	}
	return reg
}

// initialDeps builds the module file the main module starts from.
func initialDeps(reg []Mod, imports []string, policy int) []Dep {
	named := map[string]bool{}
	for _, imp := range imports {
		p, _ := splitImport(imp)
		for _, b := range []string{pa, pb, pc} {
			if p == b || strings.HasPrefix(p, b+"/") {
				named[b] = true
			}
		}
	}
	lowest := func(mp string) string {
		for _, m := range reg {
			if m.Path == mp {
				return m.V
			}
		}
		return ""
	}
	var deps []Dep
	if policy == 1 || policy == 3 {
		for _, b := range []string{pa, pb, pc} {
			if named[b] {
				if v := lowest(b + "@v0"); v != "" {
					deps = append(deps, Dep{Path: b + "@v0", V: v})
				}
			}
		}
	}
	if policy == 2 || policy == 3 {
		for _, b := range []string{pb, pc, pa} {
			if !named[b] {
				if v := lowest(b + "@v0"); v != "" {
					deps = append(deps, Dep{Path: b + "@v0", V: v})
					break
				}
			}
		}
	}
	sort.Slice(deps, func(i, j int) bool { return deps[i].Path < deps[j].Path })
	return deps
}

// relevantKey serialises the main module and the registry modules reachable
// by name from it. Two universes with the same key cannot be told apart by
// the resolver: it only ever asks the registry about module paths that are a
// prefix of an import path it has seen or that are named in a module file it
// has read.
func relevantKey(u *Universe) string {
	names := map[string]bool{}
	var queue []string
	addImp := func(imp string) {
		p, _ := splitImport(imp)
		for ; p != "." && p != "/" && p != ""; p = parent(p) {
			if !names[p] {
				names[p] = true
				queue = append(queue, p)
			}
		}
	}
	visit := func(m *Mod) {
		for _, d := range m.Deps {
			addImp(basePath(d.Path))
		}
		for _, p := range m.Pkgs {
			for _, f := range p.Files {
				for _, imp := range f {
					addImp(imp)
				}
			}
		}
	}
	visit(&u.Main)
	for len(queue) > 0 {
		n := queue[0]
		queue = queue[1:]
		for i := range u.Reg {
			if basePath(u.Reg[i].Path) == n {
				visit(&u.Reg[i])
			}
		}
	}
	var rel []Mod
	for _, m := range u.Reg {
		if !names[basePath(m.Path)] {
			continue
		}
		// only package directories that some import path names can be looked at
		m2 := m
		m2.Pkgs = nil
		for _, p := range m.Pkgs {
			ip := basePath(m.Path)
			if p.Dir != "" {
				ip += "/" + p.Dir
			}
			if names[ip] {
				m2.Pkgs = append(m2.Pkgs, p)
			}
		}
		rel = append(rel, m2)
	}
	b, _ := json.Marshal(Universe{Main: u.Main, Reg: rel})
	return string(b)
}

func parent(p string) string {
	if i := strings.LastIndexByte(p, '/'); i >= 0 {
		return p[:i]
	}
	return ""
}

func runUniverses(r *core.Run) {
	maxImports := 2
	r.Section(fmt.Sprintf("universes: main module importing <=%d of %d paths x registry configurations x initial module files, deduplicated by name-reachable registry", maxImports, len(mainMenu)))
	seen := map[string]bool{}
	total, distinct := 0, 0
	var importSets [][]string
	importSets = append(importSets, nil)
	for i := range mainMenu {
		importSets = append(importSets, []string{mainMenu[i]})
	}
	for i := range mainMenu {
		for j := i + 1; j < len(mainMenu); j++ {
			importSets = append(importSets, []string{mainMenu[i], mainMenu[j]})
		}
	}
	if r.Thorough() {
		for i := range mainMenu {
			for j := i + 1; j < len(mainMenu); j++ {
				for k := j + 1; k < len(mainMenu); k++ {
					importSets = append(importSets, []string{mainMenu[i], mainMenu[j], mainMenu[k]})
				}
			}
		}
	}
	bMax := 7
	// quick tier: b in 14 of its 42 configurations
	quickB := func(bVers, b1, b2 int) bool {
		if bVers == 0 {
			return b1 == 2 || b1 == 5 || b1 == 6 || b1 == 7
		}
		return (b1 == 0 || b1 == 1 || b1 == 3) && (b2 == 0 || b2 == 2 || b2 == 4 || b2 == 5 || b2 == 6)
	}
	for _, imps := range importSets {
		for aVers := 0; aVers <= 2; aVers++ {
			for a2imp := 0; a2imp <= 2; a2imp++ {
				if aVers == 0 && a2imp > 0 {
					continue
				}
				for aSub := 0; aSub <= 2; aSub++ {
					for bVers := 0; bVers <= 1; bVers++ {
						for b1 := 0; b1 <= bMax; b1++ {
							for b2 := 0; b2 <= bMax; b2++ {
								if bVers == 0 && b2 > 0 {
									continue
								}
								if r.Quick() && !quickB(bVers, b1, b2) {
									continue
								}
								for vo := 0; vo < 4; vo++ {
									if (b1 >= 6 || b2 >= 6) && vo&1 == 0 {
										continue // needs a@v1
									}
									cfg := regCfg{aVers: aVers, a2imp: a2imp, aSub: aSub, bVers: bVers, b1: b1, b2: b2, v1: vo&1 != 0, overlap: vo&2 != 0}
									reg := buildRegistry(cfg)
									for policy := 0; policy < 4; policy++ {
										if r.Quick() && policy == 2 {
											continue // a superfluous entry alone: covered by policy 3 in the quick tier
										}
										total++
										u := &Universe{Reg: reg}
										u.Main = mainModule(imps, initialDeps(reg, imps, policy))
										k := relevantKey(u)
										if seen[k] {
											continue
										}
										seen[k] = true
										distinct++
										if !r.Mine() {
											if r.Expired() {
												return
											}
											continue
										}
										c := kase{Kind: "universe", U: u}
										r.Guard(c, func() { checkUniverse(r, c) })
									}
								}
							}
						}
					}
				}
			}
		}
	}
	r.Count("universes_enumerated", total/max(1, r.ShardN))
	r.Count("universes_distinct_by_reachable_registry", distinct/max(1, r.ShardN))
}

// mainModule lays the imports out over a root package with two files and,
// when main.test/sub is imported, a sub-package that carries the second
// import.
func mainModule(imps []string, deps []Dep) Mod {
	m := Mod{Path: "main.test/m@v0", Deps: deps}
	var rootImps, subImps []string
	hasSub := false
	for _, imp := range imps {
		if imp == psub {
			hasSub = true
		}
	}
	for _, imp := range imps {
		if hasSub && imp != psub {
			subImps = append(subImps, imp)
			continue
		}
		rootImps = append(rootImps, imp)
	}
	files := [][]string{{}}
	if len(rootImps) > 0 {
		files = [][]string{rootImps[:1], rootImps[1:]}
		if len(rootImps) == 1 {
			files = [][]string{rootImps}
		}
	}
	m.Pkgs = []Pkg{{Dir: "", Files: files}}
	if hasSub {
		m.Pkgs = append(m.Pkgs, Pkg{Dir: "sub", Files: [][]string{subImps}})
	}
	return m
}
