package main

import (
	"fmt"
	"os"

	"cuelang.org/go/cue"
	"cuelang.org/go/cue/cuecontext"
)

func main() {
	ctx := cuecontext.New()
	for _, src := range os.Args[1:] {
		v := ctx.CompileString(src)
		o := v.LookupPath(cue.ParsePath("out"))
		fmt.Printf("== %s\n  Err=%v\n  Validate=%v\n  Concrete=%v\n  Final=%v\n", src, o.Err(), o.Validate(), o.Validate(cue.Concrete(true)), o.Validate(cue.Final()))
	}
}
