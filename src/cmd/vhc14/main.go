// Command vhc14 hosts the C14 harness; it is built with instrumented copies of
// internal/par/work.go and internal/mod/mvs/mvs.go (see lib/build.sh).
package main

import (
	"cuelang.org/go/internal/verif/core"
	_ "cuelang.org/go/internal/verif/h/c14"
)

func main() { core.Main() }
