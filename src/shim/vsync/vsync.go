// Package vsync mirrors the parts of package sync used by the instrumented
// files. Under an active scheduler every operation is a scheduling point and
// blocking is modelled; without one the real primitives are used.
package vsync

import (
	"sync"
	"sync/atomic"
	"weak"

	"cuelang.org/go/internal/verif/sched"
)

type Locker = sync.Locker

// ---- Mutex ----

type Mutex struct {
	real   sync.Mutex
	locked bool
}

func (m *Mutex) Lock() {
	s := sched.Cur()
	if s == nil {
		m.real.Lock()
		return
	}
	s.Point(&sched.Op{Kind: "lock", Obj: m, Enabled: func() bool { return !m.locked }})
	m.locked = true
}

func (m *Mutex) TryLock() bool {
	s := sched.Cur()
	if s == nil {
		return m.real.TryLock()
	}
	s.Point(&sched.Op{Kind: "trylock", Obj: m})
	if m.locked {
		return false
	}
	m.locked = true
	return true
}

func (m *Mutex) Unlock() {
	s := sched.Cur()
	if s == nil {
		m.real.Unlock()
		return
	}
	if !m.locked {
		panic("vsync: unlock of unlocked mutex")
	}
	m.locked = false
}

// ---- RWMutex ----

type RWMutex struct {
	real    sync.RWMutex
	writer  bool
	readers int
}

func (m *RWMutex) Lock() {
	s := sched.Cur()
	if s == nil {
		m.real.Lock()
		return
	}
	s.Point(&sched.Op{Kind: "wlock", Obj: m, Enabled: func() bool { return !m.writer && m.readers == 0 }})
	m.writer = true
}

func (m *RWMutex) Unlock() {
	if sched.Cur() == nil {
		m.real.Unlock()
		return
	}
	if !m.writer {
		panic("vsync: unlock of unlocked RWMutex")
	}
	m.writer = false
}

func (m *RWMutex) RLock() {
	s := sched.Cur()
	if s == nil {
		m.real.RLock()
		return
	}
	s.Point(&sched.Op{Kind: "rlock", Obj: m, Enabled: func() bool { return !m.writer }})
	m.readers++
}

func (m *RWMutex) RUnlock() {
	if sched.Cur() == nil {
		m.real.RUnlock()
		return
	}
	if m.readers <= 0 {
		panic("vsync: RUnlock of unlocked RWMutex")
	}
	m.readers--
}

func (m *RWMutex) RLocker() Locker { return rlocker{m} }

type rlocker struct{ m *RWMutex }

func (r rlocker) Lock()   { r.m.RLock() }
func (r rlocker) Unlock() { r.m.RUnlock() }

// ---- Cond ----

type Cond struct {
	L       Locker
	real    *sync.Cond
	waiters []*waiter
}

type waiter struct{ signalled bool }

func NewCond(l Locker) *Cond { return &Cond{L: l} }

func (c *Cond) realCond() *sync.Cond {
	if c.real == nil {
		c.real = sync.NewCond(c.L)
	}
	return c.real
}

func (c *Cond) Wait() {
	s := sched.Cur()
	if s == nil {
		c.realCond().Wait()
		return
	}
	w := &waiter{}
	c.waiters = append(c.waiters, w)
	c.L.Unlock()
	s.Point(&sched.Op{Kind: "condwait", Obj: c, Enabled: func() bool { return w.signalled }})
	c.L.Lock()
}

func (c *Cond) Signal() {
	s := sched.Cur()
	if s == nil {
		c.realCond().Signal()
		return
	}
	s.Point(&sched.Op{Kind: "signal", Obj: c})
	if len(c.waiters) == 0 {
		return
	}
	i := s.Choose("signal-waiter", len(c.waiters))
	c.waiters[i].signalled = true
	c.waiters = append(c.waiters[:i], c.waiters[i+1:]...)
}

func (c *Cond) Broadcast() {
	s := sched.Cur()
	if s == nil {
		c.realCond().Broadcast()
		return
	}
	s.Point(&sched.Op{Kind: "broadcast", Obj: c})
	for _, w := range c.waiters {
		w.signalled = true
	}
	c.waiters = nil
}

// ---- Once ----

type Once struct {
	real    sync.Once
	done    bool
	running bool
}

func (o *Once) Do(f func()) {
	s := sched.Cur()
	if s == nil {
		o.real.Do(f)
		return
	}
	s.Point(&sched.Op{Kind: "once", Obj: o, Enabled: func() bool { return !o.running }})
	if o.done {
		return
	}
	o.running = true
	defer func() { o.done, o.running = true, false }()
	f()
}

func OnceFunc(f func()) func() {
	var o Once
	return func() { o.Do(f) }
}

func OnceValue[T any](f func() T) func() T {
	var o Once
	var v T
	return func() T {
		o.Do(func() { v = f() })
		return v
	}
}

func OnceValues[T1, T2 any](f func() (T1, T2)) func() (T1, T2) {
	var o Once
	var v1 T1
	var v2 T2
	return func() (T1, T2) {
		o.Do(func() { v1, v2 = f() })
		return v1, v2
	}
}

// ---- WaitGroup ----

type WaitGroup struct {
	real sync.WaitGroup
	n    int
}

func (w *WaitGroup) Add(d int) {
	s := sched.Cur()
	if s == nil {
		w.real.Add(d)
		return
	}
	s.Point(&sched.Op{Kind: "wgadd", Obj: w})
	w.n += d
	if w.n < 0 {
		panic("vsync: negative WaitGroup counter")
	}
}

func (w *WaitGroup) Done() { w.Add(-1) }

func (w *WaitGroup) Wait() {
	s := sched.Cur()
	if s == nil {
		w.real.Wait()
		return
	}
	s.Point(&sched.Op{Kind: "wgwait", Obj: w, Enabled: func() bool { return w.n == 0 }})
}

func (w *WaitGroup) Go(f func()) {
	w.Add(1)
	sched.Go(func() {
		defer w.Done()
		f()
	})
}

// ---- Map ----

type Map struct {
	real       sync.Map
	registered atomic.Bool
}

var (
	allMapsMu sync.Mutex
	allMaps   []weak.Pointer[Map]
)

// ResetAllMaps clears every shim Map that has been used so far and is still
// alive. Process-wide caches (type caches keyed by reflect.Type) otherwise
// make the first execution of a scenario take a different path than the
// following ones, which a stateless explorer cannot replay.
func ResetAllMaps() {
	allMapsMu.Lock()
	defer allMapsMu.Unlock()
	live := allMaps[:0]
	for _, w := range allMaps {
		if m := w.Value(); m != nil {
			m.real.Clear()
			live = append(live, w)
		}
	}
	allMaps = live
}

func (m *Map) pt(kind string) {
	// Maps register on first use, also when running free: a cache warmed by a
	// free-running baseline must be cleared before the first scheduled
	// execution. Weak references keep per-instance maps collectable.
	if !m.registered.Load() {
		allMapsMu.Lock()
		if !m.registered.Load() {
			m.registered.Store(true)
			allMaps = append(allMaps, weak.Make(m))
			if len(allMaps) > 4096 && len(allMaps)&(len(allMaps)-1) == 0 {
				live := allMaps[:0]
				for _, w := range allMaps {
					if w.Value() != nil {
						live = append(live, w)
					}
				}
				allMaps = live
			}
		}
		allMapsMu.Unlock()
	}
	if s := sched.Cur(); s != nil {
		s.Point(&sched.Op{Kind: kind, Obj: m})
	}
}
func (m *Map) Load(k any) (any, bool) { m.pt("map.load"); return m.real.Load(k) }
func (m *Map) Store(k, v any)         { m.pt("map.store"); m.real.Store(k, v) }
func (m *Map) LoadOrStore(k, v any) (any, bool) {
	m.pt("map.loadorstore")
	return m.real.LoadOrStore(k, v)
}
func (m *Map) LoadAndDelete(k any) (any, bool) {
	m.pt("map.loadanddelete")
	return m.real.LoadAndDelete(k)
}
func (m *Map) Delete(k any)              { m.pt("map.delete"); m.real.Delete(k) }
func (m *Map) Swap(k, v any) (any, bool) { m.pt("map.swap"); return m.real.Swap(k, v) }
func (m *Map) CompareAndSwap(k, o, n any) bool {
	m.pt("map.cas")
	return m.real.CompareAndSwap(k, o, n)
}
func (m *Map) CompareAndDelete(k, o any) bool { m.pt("map.cad"); return m.real.CompareAndDelete(k, o) }
func (m *Map) Range(f func(k, v any) bool)    { m.pt("map.range"); m.real.Range(f) }
func (m *Map) Clear()                         { m.pt("map.clear"); m.real.Clear() }

// ---- Pool (no scheduling relevance: pass through) ----

type Pool = sync.Pool
