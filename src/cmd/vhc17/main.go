// Command vhc17 hosts the C17 harness; it is built with instrumented copies of
// internal/par/{work,queue}.go, internal/mod/modpkgload/pkgload.go,
// internal/mod/modload/{tidy,query}.go and
// internal/mod/modrequirements/requirements.go (see lib/build.sh).
package main

import (
	"cuelang.org/go/internal/verif/core"
	_ "cuelang.org/go/internal/verif/h/c17"
)

func main() { core.Main() }
