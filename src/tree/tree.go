// Package tree is a neutral data tree used to compare what different codecs
// read: CUE values (through the public API), JSON (through Go's encoding/json
// token stream, UseNumber) and generator data.
package tree

import (
	"bytes"
	"encoding/json"
	"fmt"
	"io"
	"math/big"
	"sort"
	"strings"

	"cuelang.org/go/cue"
	"cuelang.org/go/internal/verif/gen"
)

type Node struct {
	Kind string // null bool num string list struct
	B    bool
	N    *big.Rat
	Int  bool // for num: CUE/YAML int kind (JSON has no kinds; see Options)
	S    string
	L    []Node
	Keys []string
	Vals []Node
}

func (n Node) String() string {
	switch n.Kind {
	case "null":
		return "null"
	case "bool":
		return fmt.Sprint(n.B)
	case "num":
		k := "f"
		if n.Int {
			k = "i"
		}
		return k + n.N.RatString()
	case "string":
		return fmt.Sprintf("%q", n.S)
	case "list":
		var p []string
		for _, e := range n.L {
			p = append(p, e.String())
		}
		return "[" + strings.Join(p, ",") + "]"
	case "struct":
		var p []string
		for i, k := range n.Keys {
			p = append(p, fmt.Sprintf("%q:%s", k, n.Vals[i]))
		}
		return "{" + strings.Join(p, ",") + "}"
	}
	return "?" + n.Kind
}

// Options controls Equal.
type Options struct {
	NumKinds   bool // compare int/float kind of numbers
	IgnoreOrder bool // ignore key order of structs
}

func Equal(a, b Node, o Options) bool {
	if a.Kind != b.Kind {
		return false
	}
	switch a.Kind {
	case "null":
		return true
	case "bool":
		return a.B == b.B
	case "num":
		return a.N.Cmp(b.N) == 0 && (!o.NumKinds || a.Int == b.Int)
	case "string":
		return a.S == b.S
	case "list":
		if len(a.L) != len(b.L) {
			return false
		}
		for i := range a.L {
			if !Equal(a.L[i], b.L[i], o) {
				return false
			}
		}
		return true
	case "struct":
		if len(a.Keys) != len(b.Keys) {
			return false
		}
		if o.IgnoreOrder {
			ai, bi := order(a.Keys), order(b.Keys)
			for i := range ai {
				if a.Keys[ai[i]] != b.Keys[bi[i]] || !Equal(a.Vals[ai[i]], b.Vals[bi[i]], o) {
					return false
				}
			}
			return true
		}
		for i := range a.Keys {
			if a.Keys[i] != b.Keys[i] || !Equal(a.Vals[i], b.Vals[i], o) {
				return false
			}
		}
		return true
	}
	return false
}

func order(keys []string) []int {
	ix := make([]int, len(keys))
	for i := range ix {
		ix[i] = i
	}
	sort.Slice(ix, func(i, j int) bool { return keys[ix[i]] < keys[ix[j]] })
	return ix
}

// FromData converts generator data.
func FromData(d gen.Data) Node {
	switch d.Kind {
	case "null":
		return Node{Kind: "null"}
	case "bool":
		return Node{Kind: "bool", B: d.B}
	case "int", "float":
		return Node{Kind: "num", N: d.Rat(), Int: d.Kind == "int"}
	case "string":
		return Node{Kind: "string", S: d.S}
	case "list":
		n := Node{Kind: "list", L: []Node{}}
		for _, e := range d.L {
			n.L = append(n.L, FromData(e))
		}
		return n
	default:
		n := Node{Kind: "struct", Keys: []string{}, Vals: []Node{}}
		for i, k := range d.Keys {
			n.Keys = append(n.Keys, k)
			n.Vals = append(n.Vals, FromData(d.Vals[i]))
		}
		return n
	}
}

// FromCUE reads a concrete CUE value through the public API only (no encoder).
func FromCUE(v cue.Value) (Node, error) {
	if err := v.Err(); err != nil {
		return Node{}, err
	}
	switch v.Kind() {
	case cue.NullKind:
		return Node{Kind: "null"}, nil
	case cue.BoolKind:
		b, err := v.Bool()
		return Node{Kind: "bool", B: b}, err
	case cue.IntKind, cue.FloatKind:
		var mant big.Int
		exp, err := v.MantExp(&mant)
		if err != nil {
			return Node{}, err
		}
		r := new(big.Rat).SetInt(&mant)
		p := new(big.Rat).SetInt(new(big.Int).Exp(big.NewInt(10), big.NewInt(int64(abs(exp))), nil))
		if exp >= 0 {
			r.Mul(r, p)
		} else {
			r.Quo(r, p)
		}
		return Node{Kind: "num", N: r, Int: v.Kind() == cue.IntKind}, nil
	case cue.StringKind:
		s, err := v.String()
		return Node{Kind: "string", S: s}, err
	case cue.ListKind:
		n := Node{Kind: "list", L: []Node{}}
		it, err := v.List()
		if err != nil {
			return n, err
		}
		for it.Next() {
			e, err := FromCUE(it.Value())
			if err != nil {
				return n, err
			}
			n.L = append(n.L, e)
		}
		return n, nil
	case cue.StructKind:
		n := Node{Kind: "struct", Keys: []string{}, Vals: []Node{}}
		it, err := v.Fields()
		if err != nil {
			return n, err
		}
		for it.Next() {
			e, err := FromCUE(it.Value())
			if err != nil {
				return n, err
			}
			n.Keys = append(n.Keys, it.Selector().Unquoted())
			n.Vals = append(n.Vals, e)
		}
		return n, nil
	}
	return Node{}, fmt.Errorf("not concrete data: %v (kind %v)", v, v.IncompleteKind())
}

func abs(x int) int {
	if x < 0 {
		return -x
	}
	return x
}

// FromJSON reads one JSON document with Go's encoding/json (token stream,
// UseNumber), keeping key order. Duplicate keys are reported in dups; the last
// value wins, as in encoding/json.
func FromJSON(b []byte) (n Node, dups bool, err error) {
	dec := json.NewDecoder(bytes.NewReader(b))
	dec.UseNumber()
	n, dups, err = readValue(dec)
	if err != nil {
		return
	}
	if _, e := dec.Token(); e != io.EOF {
		err = fmt.Errorf("trailing data")
	}
	return
}

func readValue(dec *json.Decoder) (Node, bool, error) {
	t, err := dec.Token()
	if err != nil {
		return Node{}, false, err
	}
	switch x := t.(type) {
	case nil:
		return Node{Kind: "null"}, false, nil
	case bool:
		return Node{Kind: "bool", B: x}, false, nil
	case json.Number:
		r, ok := new(big.Rat).SetString(string(x))
		if !ok {
			return Node{}, false, fmt.Errorf("bad number %q", x)
		}
		isInt := !strings.ContainsAny(string(x), ".eE")
		return Node{Kind: "num", N: r, Int: isInt}, false, nil
	case string:
		return Node{Kind: "string", S: x}, false, nil
	case json.Delim:
		switch x {
		case '[':
			n := Node{Kind: "list", L: []Node{}}
			dups := false
			for dec.More() {
				e, d, err := readValue(dec)
				if err != nil {
					return n, dups, err
				}
				dups = dups || d
				n.L = append(n.L, e)
			}
			_, err := dec.Token()
			return n, dups, err
		case '{':
			n := Node{Kind: "struct", Keys: []string{}, Vals: []Node{}}
			dups := false
			for dec.More() {
				kt, err := dec.Token()
				if err != nil {
					return n, dups, err
				}
				k := kt.(string)
				e, d, err := readValue(dec)
				if err != nil {
					return n, dups, err
				}
				dups = dups || d
				found := false
				for i := range n.Keys {
					if n.Keys[i] == k {
						n.Vals[i] = e
						found, dups = true, true
					}
				}
				if !found {
					n.Keys = append(n.Keys, k)
					n.Vals = append(n.Vals, e)
				}
			}
			_, err := dec.Token()
			return n, dups, err
		}
	}
	return Node{}, false, fmt.Errorf("unexpected token %v", t)
}
