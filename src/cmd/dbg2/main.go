package main

import (
	"fmt"
	"os"

	"cuelang.org/go/cue/cuecontext"
	"cuelang.org/go/cue/format"
	"cuelang.org/go/cue/load"
	"cuelang.org/go/tools/trim"
)

func main() {
	ctx := cuecontext.New()
	src, _ := os.ReadFile(os.Args[1])
	cfg := &load.Config{Dir: "/virt", Overlay: map[string]load.Source{"/virt/x.cue": load.FromBytes(src)}}
	insts := load.Instances([]string{"x.cue"}, cfg)
	inst := insts[0]
	fmt.Println("load err", inst.Err)
	v := ctx.BuildInstance(inst)
	fmt.Println("err", v.Err())
	err := trim.Files(inst.Files, v, &trim.Config{})
	fmt.Println("trim err", err)
	b, _ := format.Node(inst.Files[0])
	fmt.Println(string(b))
}
