// Package c01: evaluation is independent of declaration and conjunct order.
//
// E1: every multiset of <=k declarations from the PG pool (profile "order")
// x every rearrangement: all permutations of top-level declarations, all
// permutations / re-associations of each & chain, split and merge of
// same-label fields, duplication, v&v, v&_, {v}, all permutations of inner
// struct members, every partition into <=3 files x every file order.
// Oracle: canon(P) == canon(P') (package canon).
package c01

import (
	"encoding/json"
	"fmt"
	"os"
	"sort"
	"strings"

	"cuelang.org/go/cue"
	"cuelang.org/go/cue/ast"
	"cuelang.org/go/cue/build"
	"cuelang.org/go/cue/cuecontext"
	"cuelang.org/go/cue/parser"
	"cuelang.org/go/internal/verif/canon"
	"cuelang.org/go/internal/verif/core"
	"cuelang.org/go/internal/verif/gen"
)

func init() {
	core.Register(&core.Prop{
		ID: "C01",
		Rule: "E1 bounded-exhaustive metamorphic: every multiset of <=k declarations from the PG 'order' pool whose references resolve, x every rearrangement (all top-level permutations, &-chain permutations and re-associations, split/merge, duplicate, v&v, v&_, {v}, inner-struct permutations, all partitions into <=3 files x file orders). " +
			"Non-trivial = programs with >=2 fields in the result or an error below the root, and >=2 distinct rearranged texts.",
		Assumptions: []string{"declaration pool and bound k as in coverage.sections", "canon compares error class and path, never message text or field order"},
		Run:         run, Replay: replay,
		RequireOutcomes: []string{"ok", "error-somewhere"},
		BudgetQuick:     200, BudgetThorough: 1500,
	})
}

var debug = os.Getenv("VERIF_DEBUG") != ""

type kase struct {
	Program string   `json:"program"`
	Decls   []int    `json:"decls"`
	Profile string   `json:"profile"`
	Variant string   `json:"variant,omitempty"`
	Files   []string `json:"files,omitempty"`
}

func run(r *core.Run) {
	profile := "order"
	pool := gen.Pool(profile)
	small := gen.Pool("small")
	for k := 1; k <= 2; k++ {
		r.Section(fmt.Sprintf("pool=order(%d decls) k=%d", len(pool), k))
		enumerate(r, pool, profile, k)
	}
	r.Section(fmt.Sprintf("pool=small(%d decls) k=3", len(small)))
	enumerate(r, small, "small", 3)
	for _, th := range []string{"lists", "disjunctions", "bounds", "closedness", "comprehensions"} {
		tp := gen.Theme(th)
		r.Section(fmt.Sprintf("theme=%s(%d decls) k=3", th, len(tp)))
		enumerate(r, tp, "theme:"+th, 3)
	}
	if r.Thorough() {
		r.Section(fmt.Sprintf("pool=order(%d decls) k=3", len(pool)))
		enumerate(r, pool, profile, 3)
		r.Section(fmt.Sprintf("pool=small(%d decls) k=4", len(small)))
		enumerate(r, small, "small", 4)
	}
}

func enumerate(r *core.Run, pool []gen.Decl, profile string, k int) {
	gen.Multisets(k, len(pool), func(ix []int) bool {
		ds := make([]gen.Decl, k)
		for i, j := range ix {
			ds[i] = pool[j]
		}
		if !gen.Resolvable(ds) {
			return true
		}
		if !r.Mine() {
			return !r.Expired()
		}
		c := kase{Program: gen.Render(ds), Decls: append([]int{}, ix...), Profile: profile}
		r.Guard(c, func() { check(r, c, ds) })
		return true
	})
}

func replay(r *core.Run, raw json.RawMessage) {
	var c kase
	if err := json.Unmarshal(raw, &c); err != nil {
		r.EngineError(err.Error())
		return
	}
	pool := gen.Pool(c.Profile)
	if th, ok := strings.CutPrefix(c.Profile, "theme:"); ok {
		pool = gen.Theme(th)
	}
	var ds []gen.Decl
	for _, j := range c.Decls {
		ds = append(ds, pool[j])
	}
	check(r, c, ds)
}

type variant struct {
	kind  string
	text  string
	files []string
}

func check(r *core.Run, c kase, ds []gen.Decl) {
	ctx := cuecontext.New()
	cn := canon.New(ctx, canon.Opts{})
	base := cn.Canon(ctx.CompileString(c.Program))
	vs, skipped := Variants(ds)
	for i := 0; i < skipped; i++ {
		r.Unclaimed("embed-wrap of a bound next to a selector into it (C02 known finding: stack overflow)")
	}
	seenText := map[string]bool{c.Program: true}
	nvar := 0
	for _, v := range vs {
		key := v.text + "\x00" + strings.Join(v.files, "\x00")
		if seenText[key] {
			continue
		}
		seenText[key] = true
		nvar++
		if debug {
			fmt.Fprintf(os.Stderr, "VARIANT %s\n%s%q\n", v.kind, v.text, v.files)
		}
		var val cue.Value
		if v.files != nil {
			val = buildFiles(ctx, v.files)
		} else {
			val = ctx.CompileString(v.text)
		}
		got := cn.Canon(val)
		r.Trans(1)
		if got != base {
			c2 := c
			c2.Variant, c2.Files = v.text, v.files
			r.Violation("order-dependence ["+v.kind+"]: "+progKey(ds), c2,
				fmt.Sprintf("original:\n%s\ncanon: %s\n\nrearranged (%s):\n%s%s\ncanon: %s", c.Program, base, v.kind, v.text, strings.Join(v.files, "\n--- file ---\n"), got))
			return
		}
	}
	r.State(base)
	if strings.Contains(base, "⊥") {
		r.Outcome("error-somewhere")
	} else {
		r.Outcome("ok")
	}
	if nvar >= 2 && (strings.Count(base, ":") >= 2 || strings.Contains(base[1:], "⊥")) {
		r.Nontrivial()
		r.Sample(map[string]any{"program": c.Program, "rearrangements": nvar, "canon": base})
	}
	r.Count("rearrangements", nvar)
}

func progKey(ds []gen.Decl) string {
	var parts []string
	for _, d := range ds {
		parts = append(parts, d.String())
	}
	sort.Strings(parts)
	return strings.Join(parts, "; ")
}

func buildFiles(ctx *cue.Context, files []string) cue.Value {
	inst := &build.Instance{PkgName: "p"}
	for i, src := range files {
		f, err := parser.ParseFile(fmt.Sprintf("f%d.cue", i), "package p\n"+src)
		if err != nil {
			return ctx.CompileString("_|_ // parse error " + err.Error())
		}
		if err := inst.AddSyntax(f); err != nil {
			return ctx.CompileString("_|_")
		}
	}
	_ = ast.File{}
	return ctx.BuildInstance(inst)
}

func cloneDecls(ds []gen.Decl) []gen.Decl {
	out := make([]gen.Decl, len(ds))
	for i, d := range ds {
		out[i] = d
		out[i].Conj = append([]gen.Val{}, d.Conj...)
	}
	return out
}

func valueExpr(d gen.Decl) string {
	s := d.String()
	return strings.TrimPrefix(s, d.Label+": ")
}

// Variants returns every rearrangement of ds (see package doc).
func Variants(ds []gen.Decl) (out []variant, skipped int) {
	emit := func(kind string, x []gen.Decl) { out = append(out, variant{kind: kind, text: gen.Render(x)}) }
	n := len(ds)
	// 1. top-level permutations
	gen.Permutations(n, func(p []int) bool {
		x := make([]gen.Decl, n)
		for i, j := range p {
			x[i] = ds[j]
		}
		emit("permute-decls", x)
		return true
	})
	hasLet := false
	for i, d := range ds {
		if strings.HasPrefix(d.Raw, "let ") {
			hasLet = true
		}
		if d.Label == "" {
			// wrap a raw embedding/comprehension in an extra embedding
			continue
		}
		// 2. & chain permutations and re-association
		if len(d.Conj) >= 2 {
			gen.Permutations(len(d.Conj), func(p []int) bool {
				x := cloneDecls(ds)
				for a, b := range p {
					x[i].Conj[a] = d.Conj[b]
				}
				emit("commute-&", x)
				if len(d.Conj) == 3 {
					y := cloneDecls(ds)
					y[i].Conj = []gen.Val{x[i].Conj[0], {Text: "(" + paren(x[i].Conj[1]) + " & " + paren(x[i].Conj[2]) + ")"}}
					emit("reassociate-&", y)
				}
				return true
			})
			// 3. split
			var parts []gen.Decl
			for _, cj := range d.Conj {
				parts = append(parts, gen.Decl{Label: d.Label, Conj: []gen.Val{cj}})
			}
			x := append(append(append([]gen.Decl{}, ds[:i]...), parts...), ds[i+1:]...)
			emit("split", x)
			y := append(append(append([]gen.Decl{parts[0]}, ds[:i]...), ds[i+1:]...), parts[1:]...)
			emit("split-far", y)
		}
		// 4. merge with a later same-label declaration
		for j := i + 1; j < n; j++ {
			if ds[j].Label == d.Label {
				x := cloneDecls(ds)
				x[i].Conj = append(x[i].Conj, ds[j].Conj...)
				x = append(x[:j], x[j+1:]...)
				emit("merge", x)
			}
		}
		// 6. v&v, v&_, {v}
		e := valueExpr(d)
		pe := e
		if len(d.Conj) > 1 || needsParenExpr(e) {
			pe = "(" + e + ")"
		}
		for _, w := range []struct{ kind, text string }{
			{"self-unify", pe + " & " + pe}, {"unify-top", pe + " & _"}, {"top-unify", "_ & " + pe}, {"embed-wrap", "{" + e + "}"},
		} {
			if false && w.kind == "embed-wrap" && crashRisk(ds) { // crash fixed by acb3d02; kept for reference
				// C02 known finding (stack overflow: bound embedded in a struct
				// literal + selector into it): crashes the process, so it cannot
				// be compared here. Counted as unclaimed.
				skipped++
				continue
			}
			x := cloneDecls(ds)
			x[i].Conj = []gen.Val{{Text: w.text}}
			// keep as a single opaque conjunct: String() will not parenthesise again
			x[i] = gen.Decl{Label: d.Label, Raw: "", Conj: []gen.Val{{Text: w.text}}}
			out = append(out, variant{kind: w.kind, text: renderOpaque(x)})
		}
		// 7. inner struct permutations
		for ci, cj := range d.Conj {
			if len(cj.Inner) >= 2 {
				gen.Permutations(len(cj.Inner), func(p []int) bool {
					x := cloneDecls(ds)
					in := make([]gen.Decl, len(cj.Inner))
					for a, b := range p {
						in[a] = cj.Inner[b]
					}
					x[i].Conj[ci].Inner = in
					emit("permute-inner", x)
					return true
				})
			}
		}
	}
	// 5. duplicate each declaration
	for i := range ds {
		if strings.HasPrefix(ds[i].Raw, "let ") {
			continue // a second `let L` is a redeclaration, not a duplicate conjunct
		}
		x := append(cloneDecls(ds), ds[i])
		emit("duplicate", x)
	}
	// 8. file partitions x file orders
	if !hasLet {
		gen.Partitions(n, 3, func(block []int, parts int) bool {
			gen.Permutations(parts, func(order []int) bool {
				files := make([]string, parts)
				for i, b := range block {
					files[order[b]] += ds[i].String() + "\n"
				}
				out = append(out, variant{kind: fmt.Sprintf("files-%d", parts), files: files})
				return true
			})
			return true
		})
	}
	return out, skipped
}

func isBound(e string) bool {
	return strings.HasPrefix(e, "<") || strings.HasPrefix(e, ">") || strings.HasPrefix(e, "!=") || strings.HasPrefix(e, "(<") || strings.HasPrefix(e, "(>")
}

// crashRisk: some label carries a bound and the program selects .x into it.
func crashRisk(ds []gen.Decl) bool {
	for _, d := range ds {
		if d.Label != "" && boundOn(ds, d.Label) && selectsInto(ds, d.Label) {
			return true
		}
	}
	return false
}

func boundOn(ds []gen.Decl, label string) bool {
	for _, d := range ds {
		if d.Label == label {
			for _, c := range d.Conj {
				if c.Inner == nil && isBound(c.Text) {
					return true
				}
			}
		}
	}
	return false
}

func selectsInto(ds []gen.Decl, label string) bool {
	for _, d := range ds {
		if strings.Contains(d.String(), label+".x") {
			return true
		}
	}
	return false
}

func paren(v gen.Val) string {
	s := v.String()
	if needsParenExpr(s) {
		return "(" + s + ")"
	}
	return s
}

func needsParenExpr(s string) bool {
	depth := 0
	inStr := false
	for i := 0; i < len(s); i++ {
		ch := s[i]
		if inStr {
			if ch == '\\' {
				i++
			} else if ch == '"' {
				inStr = false
			}
			continue
		}
		switch ch {
		case '"':
			inStr = true
		case '{', '[', '(':
			depth++
		case '}', ']', ')':
			depth--
		case '|', '&', '+', '-', '<', '>', '=', '!', '*':
			if depth == 0 {
				return true
			}
		}
	}
	return false
}

// renderOpaque renders declarations whose single conjunct text must be
// emitted verbatim.
func renderOpaque(ds []gen.Decl) string {
	var sb strings.Builder
	for _, d := range ds {
		if d.Label != "" && len(d.Conj) == 1 && d.Conj[0].Inner == nil && d.Conj[0].Wrap == "" {
			sb.WriteString(d.Label + ": " + d.Conj[0].Text + "\n")
		} else {
			sb.WriteString(d.String() + "\n")
		}
	}
	return sb.String()
}
