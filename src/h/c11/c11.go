// Package c11: YAML output reads back as the same data; JSON fed to the YAML
// decoder means JSON.
//
// E1: every string <=L over the YAML indicator alphabet + the YAML 1.1/1.2
// implicit-type spellings + the hostile pool, placed as value / key / list
// item / nested value; boundary numbers; both encoder/decoder back ends.
// Oracle: round trip through CUE's decoder (kinds and order kept) and through
// two independent decoders (goccy/go-yaml and go.yaml.in/yaml/v3); JSON
// documents through yaml.Extract vs json.Extract.
package c11

import (
	"encoding/json"
	"fmt"
	"math"
	"math/big"
	"strings"
	"unicode/utf8"

	"cuelang.org/go/cue"
	"cuelang.org/go/cue/cuecontext"
	"cuelang.org/go/cue/literal"
	cuejson "cuelang.org/go/encoding/json"
	cueyaml "cuelang.org/go/encoding/yaml"
	"cuelang.org/go/internal/cueexperiment"
	"cuelang.org/go/internal/verif/core"
	"cuelang.org/go/internal/verif/gen"
	"cuelang.org/go/internal/verif/tree"
	goccy "github.com/goccy/go-yaml"
	yamlv3 "go.yaml.in/yaml/v3"
)

func init() {
	core.Register(&core.Prop{
		ID: "C11",
		Rule: "E1 bounded-exhaustive: strings <=L over 37 YAML-significant characters + 120 implicit-type spellings + hostile pool, each as scalar value, mapping key, sequence item and nested value, for both YAML back ends (goccy default, yaml.v3); boundary numbers; JSON documents (C10 grammar, depth<=1) through the YAML decoder. " +
			"Non-trivial = strings that the encoder had to quote or emit as a block scalar.",
		Assumptions: []string{"independent decoders: github.com/goccy/go-yaml and go.yaml.in/yaml/v3 (YAML 1.2 core schema + 1.1 bools only for typed targets)", "numbers are compared through the independent decoders only when they fit int64/float64 exactly"},
		Run:         run, Replay: replay,
		RequireOutcomes: []string{"roundtrip:plain", "roundtrip:quoted", "json-as-yaml:ok"},
		BudgetQuick:     200, BudgetThorough: 1500,
	})
}

type kase struct {
	Kind    string `json:"kind"` // str | num | json
	S       string `json:"s,omitempty"`
	Q       string `json:"q,omitempty"`
	Pos     string `json:"pos,omitempty"`
	Backend string `json:"backend,omitempty"`
	Doc     string `json:"doc,omitempty"`
}

var alpha = []string{"-", ":", "#", "?", ",", "[", "]", "{", "}", "&", "*", "!", "|", ">", "'", "\"", "%", "@", "`", "~", ".", "=", "<",
	"0", "1", "e", "x", "o", "_", "y", "n", "t", "f", " ", "\t", "\n", "a"}

var implicit = []string{
	"null", "Null", "NULL", "~", "", "true", "True", "TRUE", "false", "False", "FALSE", "y", "Y", "yes", "Yes", "YES", "n", "N", "no", "No", "NO",
	"on", "On", "ON", "off", "Off", "OFF", "t", "T", "f", "F",
	"0", "1", "-1", "+1", "01", "0o7", "0o17", "0x1F", "0X1f", "0b101", "1_000", "1,000", "0.", ".5", "-.5", "1.", "1.0", "1e3", "1E3", "1e+3", "1.5e-3", "+1e3", "1_0.5",
	".inf", ".Inf", ".INF", "-.inf", "+.inf", ".nan", ".NaN", ".NAN", ".Nan", "inf", "nan", "Infinity", "NaN",
	"1:20", "1:20:30", "190:20:30", "1:20.5", "-1:20",
	"2001-01-01", "2001-1-1", "2001-12-14t21:59:43.10-05:00", "2001-12-14 21:59:43.10 -5", "2001-12-15 2:59:43.10", "2001-12-14T21:59:43Z", "21:59:43",
	"<<", "=", "---", "...", "--- a", "... a", "!!str", "!!str a", "!a", "&a", "*a", "&a b", "? a", "?", "- a", "-", "- ", "-a", ": a", "a: b", "a:b", "a :b", "a #b", "a# b", "#a",
	"[a]", "[", "]", "{a}", "{a: b}", "{", "}", "a, b", ",", "| a", "|", "|-", ">", ">-", "> a", "%a", "%YAML 1.2", "@a", "`a`", "'a'", "\"a\"", "'", "\"", "a'b", "a\"b",
	" a", "a ", " ", "  ", "\ta", "a\t", "\t", "\n", "\n\n", "a\n", "\na", "a\nb", "a\n\nb", " a\nb", "a\n b", "a \nb", "a\n\tb", "a\r\nb", "\r", "a\rb",
	"\u0000", "a\u0001b", "\u007f", "\u0085", "\u00a0", "\u2028", "\u2029", "\ufeff", "\ufeffa", "\U0001F600", "é", "\\", "\\n", "a\\", "\\x41", "%41",
	"key: [1, 2]", "a: 1\nb: 2", "- 1\n- 2", "# comment", "a # comment", "x: y: z", "0:0", "::", ":", "a:", ":a", "a::b", "null: null",
}

var positions = []string{"value", "key", "item", "nested"}

func run(r *core.Run) {
	cueexperiment.Init()
	L := 3
	if r.Thorough() {
		L = 4
	}
	do := func(c kase) bool {
		if !r.Mine() {
			return !r.Expired()
		}
		r.Guard(c, func() { check(r, c) })
		return true
	}
	for _, be := range []string{"goccy", "yamlv3"} {
		r.Section("implicit-type spellings and hostile pool, backend=" + be)
		for _, s := range append(append([]string{}, implicit...), gen.HostileStrings...) {
			for _, p := range positions {
				do(kase{Kind: "str", S: s, Pos: p, Backend: be})
			}
		}
		r.Section("boundary numbers, backend=" + be)
		for _, d := range gen.ScalarData(nil) {
			if d.Kind == "int" || d.Kind == "float" {
				for _, p := range []string{"value", "item"} {
					do(kase{Kind: "num", S: d.Num, Pos: p, Backend: be})
				}
			}
		}
	}
	r.Section("JSON documents through the YAML decoder")
	for _, d := range jsonDocs() {
		for _, be := range []string{"goccy", "yamlv3"} {
			do(kase{Kind: "json", Doc: d, Backend: be})
		}
	}
	if r.Quick() {
		// length 4 in the quick tier: every string whose first character is
		// white space (block-scalar and indentation hazards sit at the start),
		// default back end, scalar and nested positions
		r.Section(fmt.Sprintf("strings of length 4 starting with white space over %d chars, backend=goccy", len(alpha)))
		for _, first := range []string{"\n", " ", "\t"} {
			gen.Tuples(3, len(alpha), func(ix []int) bool {
				s := first
				for _, i := range ix {
					s += alpha[i]
				}
				for _, p := range []string{"value", "nested"} {
					if !do(kase{Kind: "str", S: s, Pos: p, Backend: "goccy"}) {
						return false
					}
				}
				return true
			})
		}
	}
	for l := 1; l <= L; l++ {
		for _, be := range []string{"goccy", "yamlv3"} {
			if be == "yamlv3" && l == L && r.Quick() {
				continue
			}
			r.Section(fmt.Sprintf("strings<=%d over %d chars, backend=%s", l, len(alpha), be))
			gen.Tuples(l, len(alpha), func(ix []int) bool {
				var sb strings.Builder
				for _, i := range ix {
					sb.WriteString(alpha[i])
				}
				s := sb.String()
				for _, p := range positions {
					if l == L && (p == "item" || p == "nested") && r.Quick() {
						continue
					}
					if !do(kase{Kind: "str", S: s, Pos: p, Backend: be}) {
						return false
					}
				}
				return true
			})
		}
	}
}

func jsonDocs() []string {
	nums := []string{"0", "-0", "1", "1.0", "1e2", "1E+2", "1e-2", "1e400", "123456789012345678901", "0.10", "-1.5"}
	strs := []string{`""`, `"a"`, `"\n"`, `"\u0000"`, `"\ud83d\ude00"`, "\"\u2028\"", `"<"`, `"\/"`, `"\\"`, `"\""`, `"\t"`, `"a b"`, `"#"`, `"'"`, `": "`, `"- a"`, `"yes"`, `"null"`, `"1"`, `"0x1f"`, `"é"`, `"é"`, `"\u007f"`, `"~"`}
	var out []string
	out = append(out, "null", "true", "false")
	out = append(out, nums...)
	out = append(out, strs...)
	elems := append(append([]string{"null", "true"}, nums[:6]...), strs[:12]...)
	out = append(out, "[]", "{}", "[ ]", "{ }")
	for _, a := range elems {
		out = append(out, "["+a+"]", `{"k":`+a+`}`, `{"k": `+a+`}`, "[ "+a+" ]")
		for _, b := range elems[:8] {
			out = append(out, "["+a+","+b+"]", "["+a+", "+b+"]", `{"a":`+a+`,"b":`+b+`}`)
		}
	}
	for _, k := range strs {
		out = append(out, "{"+k+":1}", "{"+k+": 1}")
	}
	out = append(out, `{"a":{"b":[1,{"c":null}]}}`, `[[1],[2,[3]]]`, "{\n  \"a\": [\n    1,\n    2\n  ]\n}", `{"a":[],"b":{}}`, "\t[1]\n", `{"a":1,"b":{"c":"d"}}`)
	return out
}

func replay(r *core.Run, raw json.RawMessage) {
	var c kase
	if err := json.Unmarshal(raw, &c); err != nil {
		r.EngineError(err.Error())
		return
	}
	cueexperiment.Init()
	check(r, c)
}

func setBackend(be string) { cueexperiment.Flags.YAMLGoccy = be == "goccy" }

func sKey(s string) string { return fmt.Sprintf("%q", s) }

func check(r *core.Run, c kase) {
	setBackend(c.Backend)
	defer setBackend("goccy")
	c.Q = sKey(c.S)
	switch c.Kind {
	case "json":
		checkJSON(r, c)
		return
	}
	if c.Kind == "str" && !utf8.ValidString(c.S) {
		return
	}
	ctx := cuecontext.New()
	var src string
	lit := literal.String.Quote(c.S)
	if c.Kind == "num" {
		lit = c.S
	}
	switch c.Pos {
	case "value":
		src = "x: " + lit
	case "key":
		src = "(" + lit + "): 1\nz: 2"
	case "item":
		src = "[" + lit + ", 1, " + lit + "]"
	default:
		src = "a: b: [{c: " + lit + ", d: [" + lit + "]}]"
	}
	v := ctx.CompileString(src)
	want, err := tree.FromCUE(v)
	if err != nil {
		r.EngineError("generator: " + src + ": " + err.Error())
		return
	}
	r.Trans(1)
	where := fmt.Sprintf("[%s %s %s]", c.Backend, c.Kind, c.Pos)
	out, err := cueyaml.Encode(v)
	if err != nil {
		r.Violation(fmt.Sprintf("yaml.Encode fails %s: %s", where, sKey(c.S)), c, err.Error())
		return
	}
	// CUE's own decoder
	f, err := cueyaml.Extract("x.yaml", out)
	if err != nil {
		r.Violation(fmt.Sprintf("YAML output rejected by CUE's decoder %s: %s", where, sKey(c.S)), c, fmt.Sprintf("%v\n--- yaml ---\n%s", err, out))
		return
	}
	got, err := tree.FromCUE(ctx.BuildFile(f))
	if err != nil || !tree.Equal(got, want, tree.Options{NumKinds: true}) {
		r.Violation(fmt.Sprintf("YAML output reads back differently (CUE decoder) %s: %s", where, sKey(c.S)), c, fmt.Sprintf("want %s\ngot  %s (%v)\n--- yaml ---\n%s", want, got, err, out))
		return
	}
	// independent decoders: a disagreement counts only if both independent
	// decoders agree with each other that the text does not denote the data
	// (each has its own quirks, e.g. YAML 1.1 leniency in yaml.v3).
	type verdict struct {
		name, msg string
		bad       bool
	}
	var vs []verdict
	for _, dec := range []struct {
		name string
		fn   func([]byte, any) error
	}{{"goccy", func(b []byte, x any) error { return goccy.Unmarshal(b, x) }}, {"yaml.v3", func(b []byte, x any) error { return yamlv3.Unmarshal(b, x) }}} {
		var x any
		if err := dec.fn(out, &x); err != nil {
			vs = append(vs, verdict{dec.name, "rejected: " + err.Error(), true})
			continue
		}
		n, ok := fromGo(x)
		if !ok {
			vs = append(vs, verdict{dec.name, fmt.Sprintf("non-data type %#v", x), c.Kind != "num"})
			continue
		}
		if c.Kind == "num" && !numComparable(c.S) {
			vs = append(vs, verdict{dec.name, "", false})
			continue
		}
		if !tree.Equal(n, want, tree.Options{IgnoreOrder: true}) {
			vs = append(vs, verdict{dec.name, "reads " + n.String(), true})
			continue
		}
		vs = append(vs, verdict{dec.name, "", false})
	}
	if vs[0].bad && vs[1].bad {
		r.Violation(fmt.Sprintf("YAML output misread by both independent decoders %s: %s", where, sKey(c.S)), c,
			fmt.Sprintf("want %s\n%s: %s\n%s: %s\n--- yaml ---\n%s", want, vs[0].name, vs[0].msg, vs[1].name, vs[1].msg, out))
		return
	}
	if vs[0].bad || vs[1].bad {
		r.Count("independent_decoders_disagree_with_each_other", 1)
	}
	quoted := strings.ContainsAny(string(out), "\"'|>")
	if quoted {
		r.Outcome("roundtrip:quoted")
		r.Nontrivial()
		r.Sample(map[string]string{"string": sKey(c.S), "pos": c.Pos, "backend": c.Backend, "yaml": string(out)})
	} else {
		r.Outcome("roundtrip:plain")
	}
	r.State(string(out))
}

func numComparable(s string) bool {
	r, ok := new(big.Rat).SetString(s)
	if !ok {
		return false
	}
	f, exact := r.Float64()
	return exact && !math.IsInf(f, 0)
}

// fromGo converts what a Go YAML decoder produced into a tree.
func fromGo(x any) (tree.Node, bool) {
	switch v := x.(type) {
	case nil:
		return tree.Node{Kind: "null"}, true
	case bool:
		return tree.Node{Kind: "bool", B: v}, true
	case int:
		return tree.Node{Kind: "num", N: new(big.Rat).SetInt64(int64(v)), Int: true}, true
	case int64:
		return tree.Node{Kind: "num", N: new(big.Rat).SetInt64(v), Int: true}, true
	case uint64:
		return tree.Node{Kind: "num", N: new(big.Rat).SetInt(new(big.Int).SetUint64(v)), Int: true}, true
	case float64:
		if math.IsInf(v, 0) || math.IsNaN(v) {
			return tree.Node{}, false
		}
		return tree.Node{Kind: "num", N: new(big.Rat).SetFloat64(v)}, true
	case string:
		return tree.Node{Kind: "string", S: v}, true
	case []any:
		n := tree.Node{Kind: "list", L: []tree.Node{}}
		for _, e := range v {
			c, ok := fromGo(e)
			if !ok {
				return n, false
			}
			n.L = append(n.L, c)
		}
		return n, true
	case map[string]any:
		n := tree.Node{Kind: "struct", Keys: []string{}, Vals: []tree.Node{}}
		for k, e := range v {
			c, ok := fromGo(e)
			if !ok {
				return n, false
			}
			n.Keys = append(n.Keys, k)
			n.Vals = append(n.Vals, c)
		}
		return n, true
	case map[any]any:
		n := tree.Node{Kind: "struct", Keys: []string{}, Vals: []tree.Node{}}
		for k, e := range v {
			ks, isStr := k.(string)
			if !isStr {
				return n, false
			}
			c, ok := fromGo(e)
			if !ok {
				return n, false
			}
			n.Keys = append(n.Keys, ks)
			n.Vals = append(n.Vals, c)
		}
		return n, true
	}
	return tree.Node{}, false
}

func checkJSON(r *core.Run, c kase) {
	ctx := cuecontext.New()
	doc := []byte(c.Doc)
	r.Trans(1)
	je, jerr := cuejson.Extract("x.json", doc)
	if jerr != nil {
		r.Unclaimed("document rejected by the JSON decoder (C10)")
		return
	}
	want, err := tree.FromCUE(ctx.BuildExpr(je))
	if err != nil {
		r.Unclaimed("document that does not evaluate under the JSON decoder (C10)")
		return
	}
	f, err := cueyaml.Extract("x.yaml", doc)
	if err != nil {
		r.Violation(fmt.Sprintf("JSON document rejected by the YAML decoder [%s]: %q", c.Backend, c.Doc), c, err.Error())
		return
	}
	got, err := tree.FromCUE(ctx.BuildFile(f))
	if err != nil || !tree.Equal(got, want, tree.Options{}) {
		r.Violation(fmt.Sprintf("JSON document means something else under the YAML decoder [%s]: %q", c.Backend, c.Doc), c, fmt.Sprintf("json: %s\nyaml: %s (%v)", want, got, err))
		return
	}
	r.Outcome("json-as-yaml:ok")
	_ = cue.Value{}
}
