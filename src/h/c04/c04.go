// Package c04: disjunctions and defaults follow the spec's value/default pairs.
//
// E1: every expression of a bounded grammar over {atoms, types, bounds, small
// structs} with |, top-level * marks (un-nested) and &, on the real evaluator,
// against model.Eval (rules U0-U2, D0-D2, M0-M1).
package c04

import (
	"encoding/json"
	"fmt"
	"slices"
	"sort"
	"strings"

	"cuelang.org/go/cue"
	"cuelang.org/go/cue/cuecontext"
	"cuelang.org/go/internal/verif/canon"
	"cuelang.org/go/internal/verif/core"
	"cuelang.org/go/internal/verif/model"
)

func init() {
	core.Register(&core.Prop{
		ID: "C04",
		Rule: "E1 bounded-exhaustive: every expression of families S1..S7 (disjunctions of width 2-3 over 11 leaves with every mark pattern; disjunction & leaf; disjunction & disjunction; disjunctions of conjunctions; nested unmarked disjunctions carrying defaults) " +
			"x 14 probe values; oracle = executable model of spec rules U0-U2, D0-D2, M0-M1. Non-trivial = expressions with >=2 surviving disjuncts or a default.",
		Assumptions: []string{"model in /verif/src/model/disj.go; nested marks (M2/M3) are excluded by the property and not generated",
			"disjunct equality in the model = equal evaluated normal form (pinned atom / denotation over the universe / merged struct)"},
		Run: run, Replay: replay,
		RequireOutcomes: []string{"resolved-default", "resolved-unique", "ambiguous", "bottom", "nonconcrete"},
		BudgetQuick:     150, BudgetThorough: 1500,
	})
}

type kase struct {
	Expr string      `json:"expr"`
	Tree *model.Expr `json:"tree"`
	// Mirror: also evaluate the expression with the disjuncts of every
	// disjunction written in the opposite order; the resolved default must
	// be the same (no reference model involved)
	Mirror bool `json:"mirror,omitempty"`
}

var mirrorOn bool

// mirror returns e with the operands of every disjunction reversed.
func mirror(e *model.Expr) *model.Expr {
	if e == nil || len(e.Args) == 0 {
		return e
	}
	m := *e
	m.Args = make([]*model.Expr, len(e.Args))
	for i, a := range e.Args {
		m.Args[i] = mirror(a)
	}
	if e.Op == "|" {
		slices.Reverse(m.Args)
		if len(e.Marks) == len(e.Args) {
			m.Marks = slices.Clone(e.Marks)
			slices.Reverse(m.Marks)
		}
	}
	return &m
}

var leaves = model.DisjLeaves()
var reduced = func() []model.Leaf {
	var out []model.Leaf
	for _, l := range leaves {
		switch l.Src {
		case "3", "string", "<=2":
		default:
			out = append(out, l)
		}
	}
	return out
}()
var universe = model.DisjUniverse()

var structProbes = []map[string]string{{"a": "1"}, {"b": "1"}, {"a": "1", "b": "1"}, {"a": "2"}, {}}

func leafE(l model.Leaf) *model.Expr   { return &model.Expr{Op: "leaf", Leaf: l} }
func and(a, b *model.Expr) *model.Expr { return &model.Expr{Op: "&", Args: []*model.Expr{a, b}} }

// disjs returns every disjunction of the given width over terms, with every
// mark pattern allowed by the un-nested rule.
func disjs(terms []*model.Expr, width int, marks bool, fn func(*model.Expr) bool) {
	ix := make([]int, width)
	var rec func(pos int) bool
	rec = func(pos int) bool {
		if pos == width {
			args := make([]*model.Expr, width)
			anyInner := false
			for i, j := range ix {
				args[i] = terms[j]
				anyInner = anyInner || terms[j].HasMark()
			}
			npat := 1 << width
			if !marks || anyInner {
				npat = 1
			}
			for pat := 0; pat < npat; pat++ {
				m := make([]bool, width)
				for i := range m {
					m[i] = pat&(1<<i) != 0
				}
				if !fn(&model.Expr{Op: "|", Args: args, Marks: m}) {
					return false
				}
			}
			return true
		}
		for i := range terms {
			ix[pos] = i
			if !rec(pos + 1) {
				return false
			}
		}
		return true
	}
	rec(0)
}

func collect(terms []*model.Expr, width int, marks bool) []*model.Expr {
	var out []*model.Expr
	disjs(terms, width, marks, func(e *model.Expr) bool { out = append(out, e); return true })
	return out
}

func run(r *core.Run) {
	var t0, t0r []*model.Expr
	for _, l := range leaves {
		t0 = append(t0, leafE(l))
	}
	for _, l := range reduced {
		t0r = append(t0r, leafE(l))
	}
	ctx := cuecontext.New()
	n := 0
	do := func(e *model.Expr) bool {
		if !r.Mine() {
			return !r.Expired()
		}
		n++
		if n%500 == 0 {
			ctx = cuecontext.New()
		}
		c := kase{Expr: e.String(), Tree: e, Mirror: mirrorOn}
		r.Guard(c, func() { check(r, ctx, c) })
		return true
	}
	d2 := collect(t0, 2, true)
	d2r := collect(t0r, 2, true)
	r.Section("S1: disjunctions width 2,3 over 11 leaves, all marks")
	for _, e := range d2 {
		do(e)
	}
	disjs(t0, 3, true, do)
	r.Section("S2: (disjunction w2) & leaf, both orders")
	for _, d := range d2 {
		for _, l := range t0 {
			do(and(d, l))
			do(and(l, d))
		}
	}
	r.Section("S3: (disjunction w2) & (disjunction w2), reduced leaves")
	for _, a := range d2r {
		for _, b := range d2r {
			if !do(and(a, b)) {
				break
			}
		}
	}
	r.Section("S4: disjunction w2 over {leaf, leaf&leaf} (reduced), all marks")
	terms := append([]*model.Expr{}, t0r...)
	for _, a := range t0r {
		for _, b := range t0r {
			terms = append(terms, and(a, b))
		}
	}
	disjs(terms, 2, true, do)
	r.Section("S5: unmarked disjunction of (marked disjunction w2) and a leaf")
	for _, d := range d2 {
		if !d.HasMark() {
			continue
		}
		for _, l := range t0 {
			do(&model.Expr{Op: "|", Args: []*model.Expr{d, l}, Marks: []bool{false, false}})
			do(&model.Expr{Op: "|", Args: []*model.Expr{l, d}, Marks: []bool{false, false}})
		}
	}
	r.Section("S9: (leaf | (marked disjunction w2)) & (disjunction w2), both orders, 4 leaves {1,2,3,int}")
	var t4 []*model.Expr
	for _, l := range leaves {
		switch l.Src {
		case "1", "2", "3", "int":
			t4 = append(t4, leafE(l))
		}
	}
	d4 := collect(t4, 2, true)
	for _, d := range d4 {
		if !d.HasMark() {
			continue
		}
		for _, l := range t4 {
			for _, nested := range []*model.Expr{
				{Op: "|", Args: []*model.Expr{l, d}, Marks: []bool{false, false}},
				{Op: "|", Args: []*model.Expr{d, l}, Marks: []bool{false, false}},
			} {
				for _, o := range d4 {
					do(and(nested, o))
					do(and(o, nested))
				}
			}
		}
	}
	r.Section("S10: ((disjunction w3 over 1,2,3 in either order, all marks) & (the same)) & (disjunction w2 of two distinct of them, both orders, all marks)")
	var t3 []*model.Expr
	for _, src := range []string{"1", "2", "3"} {
		for _, l := range leaves {
			if l.Src == src {
				t3 = append(t3, leafE(l))
			}
		}
	}
	if len(t3) == 3 {
		mirrorOn = true
		var w3, w2 []*model.Expr
		for _, args := range [][]*model.Expr{{t3[0], t3[1], t3[2]}, {t3[2], t3[1], t3[0]}} {
			for pat := 0; pat < 8; pat++ {
				w3 = append(w3, &model.Expr{Op: "|", Args: args, Marks: []bool{pat&1 != 0, pat&2 != 0, pat&4 != 0}})
			}
		}
		for i := range t3 {
			for j := range t3 {
				if i == j {
					continue
				}
				for pat := 0; pat < 4; pat++ {
					w2 = append(w2, &model.Expr{Op: "|", Args: []*model.Expr{t3[i], t3[j]}, Marks: []bool{pat&1 != 0, pat&2 != 0}})
				}
			}
		}
		for _, a := range w3 {
			for _, b := range w3 {
				for _, c := range w2 {
					if !do(and(and(a, b), c)) {
						break
					}
				}
			}
		}
		mirrorOn = false
	}
	if r.Thorough() {
		r.Section("S6: (disjunction w2) & (disjunction w2), all leaves")
		for _, a := range d2 {
			for _, b := range d2 {
				if !do(and(a, b)) {
					break
				}
			}
		}
		r.Section("S7: ((disjunction w2) & (disjunction w2)) & (disjunction w2), 5 leaves")
		var t5 []*model.Expr
		for _, l := range leaves {
			switch l.Src {
			case "1", "2", "int", "{a: 1}", "{a: int}":
				t5 = append(t5, leafE(l))
			}
		}
		d5 := collect(t5, 2, true)
		for _, a := range d5 {
			for _, b := range d5 {
				for _, c := range d5 {
					if !do(and(and(a, b), c)) {
						break
					}
				}
			}
		}
		r.Section("S8: (disjunction w3) & (disjunction w2), reduced leaves")
		d3r := collect(t0r, 3, true)
		for _, a := range d3r {
			for _, b := range d2r {
				if !do(and(a, b)) {
					break
				}
			}
		}
	}
}

func replay(r *core.Run, raw json.RawMessage) {
	var c kase
	if err := json.Unmarshal(raw, &c); err != nil {
		r.EngineError(err.Error())
		return
	}
	relink(c.Tree)
	check(r, cuecontext.New(), c)
}

// relink restores the Constraint closures lost in JSON.
func relink(e *model.Expr) {
	if e.Op == "leaf" {
		for _, l := range leaves {
			if l.Src == e.Leaf.Src {
				e.Leaf = l
			}
		}
	}
	for _, a := range e.Args {
		relink(a)
	}
}

// implKey renders a resolved implementation value in the model's key format.
func implKey(v cue.Value) (key string, concrete bool) {
	switch v.Kind() {
	case cue.IntKind, cue.FloatKind, cue.StringKind, cue.NullKind, cue.BoolKind:
		return fmt.Sprint(v), true
	case cue.StructKind:
		it, err := v.Fields()
		if err != nil {
			return "", false
		}
		var parts []string
		concrete = true
		for it.Next() {
			fv := it.Value()
			s := "int"
			if fv.IsConcrete() {
				s = fmt.Sprint(fv)
			} else {
				concrete = false
			}
			parts = append(parts, it.Selector().String()+":"+s)
		}
		sort.Strings(parts)
		return "{" + strings.Join(parts, ",") + "}", concrete
	}
	return "", false
}

// collapsedTag marks expressions containing a marked disjunction all of whose
// disjuncts are textually equal (`*x | x`), used to key a known finding.
func collapsedTag(e *model.Expr) string {
	return collapsedTag1(e) + nestedRightTag(e) + cancelledTag(e)
}

// cancelledTag marks expressions in which the elimination sentence of the
// spec ("if all the marked disjuncts of a marked disjunction are eliminated,
// the remaining unmarked disjuncts are considered as if they originated from
// an unmarked disjunction") has to be applied to the RESULT of an inner
// conjunction: either the inner conjunction's own defaults exclude each other,
// or all of its surviving marked disjuncts are eliminated by the outer operand.
func cancelledTag(e *model.Expr) string {
	found := false
	var walk func(e *model.Expr)
	walk = func(e *model.Expr) {
		if e.Op == "&" {
			for i, x := range e.Args {
				if x.Op != "&" {
					continue
				}
				a, b := model.Eval(x.Args[0], universe), model.Eval(x.Args[1], universe)
				in := model.Eval(x, universe)
				if a.D != nil && b.D != nil && len(in.V) > 0 && len(in.D) == 0 {
					found = true
				}
				if len(in.D) > 0 {
					other := model.Eval(e.Args[1-i], universe)
					survives := false
					for _, d := range in.D {
						for _, t := range other.V {
							c := append(append(model.Conj{}, d...), t...)
							if _, ok, _ := c.Norm(universe); ok {
								survives = true
							}
						}
					}
					if !survives {
						found = true
					}
				}
			}
		}
		for _, a := range e.Args {
			walk(a)
		}
	}
	walk(e)
	if found {
		return " [default-elimination-across-conjunctions]"
	}
	return ""
}

// nestedRightTag marks expressions in which the right operand of an & is an
// unmarked disjunction that contains a marked disjunction.
func nestedRightTag(e *model.Expr) string {
	found := false
	var walk func(e *model.Expr)
	walk = func(e *model.Expr) {
		if e.Op == "&" {
			r := e.Args[1]
			if r.Op == "|" {
				marked := false
				for _, m := range r.Marks {
					marked = marked || m
				}
				if !marked && r.HasMark() {
					found = true
				}
			}
		}
		for _, a := range e.Args {
			walk(a)
		}
	}
	walk(e)
	if found {
		return " [nested-default-in-right-operand]"
	}
	return ""
}

func collapsedTag1(e *model.Expr) string {
	found := false
	var walk func(e *model.Expr)
	walk = func(e *model.Expr) {
		if e.Op == "|" && e.HasMark() && len(e.Marks) > 0 {
			marked := false
			for _, m := range e.Marks {
				marked = marked || m
			}
			same := true
			for _, a := range e.Args[1:] {
				same = same && a.String() == e.Args[0].String()
			}
			if marked && same {
				found = true
			}
		}
		for _, a := range e.Args {
			walk(a)
		}
	}
	walk(e)
	if found {
		return " [collapsed-marked-disjunction]"
	}
	return ""
}

func structSrc(d map[string]string) string {
	var parts []string
	for k, v := range d {
		parts = append(parts, k+": "+v)
	}
	sort.Strings(parts)
	return "close({" + strings.Join(parts, ", ") + "})"
}

func check(r *core.Run, ctx *cue.Context, c kase) {
	p := model.Eval(c.Tree, universe)
	e := ctx.CompileString(c.Expr)
	// 1. acceptance
	for _, a := range universe {
		u := ctx.CompileString("(" + c.Expr + ") & (" + a.Src + ")")
		r.Trans(1)
		got := canon.ErrClass(u) == "" && u.Validate() == nil
		if want := p.AcceptsAtom(a); got != want {
			r.Violation(fmt.Sprintf("acceptance: impl=%v model=%v: %s & %s", got, want, c.Expr, a.Src), c, fmt.Sprintf("err=%v", u.Err()))
			return
		}
	}
	for _, d := range structProbes {
		src := structSrc(d)
		u := ctx.CompileString("(" + c.Expr + ") & " + src)
		r.Trans(1)
		got := canon.ErrClass(u) == "" && u.Validate() == nil
		if want := p.AcceptsStruct(d); got != want {
			r.Violation(fmt.Sprintf("acceptance: impl=%v model=%v: %s & %s", got, want, c.Expr, src), c, fmt.Sprintf("err=%v", u.Err()))
			return
		}
	}
	// 2. resolution
	vKeys, vConc := model.Survivors(p.V, universe)
	cand, conc := vKeys, vConc
	usedDefault := false
	if p.D != nil {
		dKeys, dConc := model.Survivors(p.D, universe)
		if len(dKeys) > 0 {
			cand, conc, usedDefault = dKeys, dConc, true
		}
	}
	implErr := canon.ErrClass(e)
	d, _ := e.Default()
	ikey, iconc := "", false
	if implErr == "" {
		ikey, iconc = implKey(d)
	}
	if c.Mirror {
		msrc := mirror(c.Tree).String()
		me := ctx.CompileString(msrc)
		r.Trans(1)
		md, _ := me.Default()
		mkey, mconc := "", false
		if merr := canon.ErrClass(me); merr == "" {
			mkey, mconc = implKey(md)
		} else if implErr == "" {
			mkey = "error"
		}
		if mconc != iconc || (iconc && mkey != ikey) {
			r.Violation(fmt.Sprintf("default depends on the order of disjuncts: %s resolves to %q(concrete=%v), %s to %q(concrete=%v)", c.Expr, ikey, iconc, msrc, mkey, mconc), c, fmt.Sprintf("Default() = %v / %v", d, md))
			return
		}
	}
	switch {
	case len(vKeys) == 0:
		r.Outcome("bottom")
		if implErr != "error" {
			r.Violation("all disjuncts fail but result is not bottom: "+c.Expr, c, fmt.Sprintf("impl value %v", e))
			return
		}
	case implErr == "error":
		r.Violation("bottom although a disjunct survives: "+c.Expr, c, fmt.Sprintf("model survivors %v; err=%v", vKeys, e.Err()))
		return
	case len(cand) == 1 && conc[cand[0]]:
		if usedDefault {
			r.Outcome("resolved-default")
		} else {
			r.Outcome("resolved-unique")
		}
		if !iconc || ikey != cand[0] {
			r.Violation(fmt.Sprintf("default resolution: model=%s impl=%s(concrete=%v): %s%s", cand[0], ikey, iconc, c.Expr, collapsedTag(c.Tree)), c,
				fmt.Sprintf("model: unique surviving %s disjunct %s; implementation Default() = %v", map[bool]string{true: "default", false: "value"}[usedDefault], cand[0], d))
			return
		}
	case len(cand) == 1:
		r.Outcome("nonconcrete")
		if iconc && d.Kind() != cue.StructKind {
			// may only be the atom the denotation allows
			if !strings.Contains(cand[0], "den(") || !strings.Contains(" "+cand[0][4:len(cand[0])-1]+" ", " "+ikey+" ") {
				r.Violation(fmt.Sprintf("non-concrete survivor resolved to foreign value: model=%s impl=%s: %s", cand[0], ikey, c.Expr), c, "")
				return
			}
		}
	default:
		r.Outcome("ambiguous")
		if iconc {
			r.Violation(fmt.Sprintf("ambiguous default silently resolved: model=%v impl=%s: %s%s", cand, ikey, c.Expr, collapsedTag(c.Tree)), c,
				fmt.Sprintf("model: %d distinct surviving candidates %v (default part used: %v); implementation Default() = %v", len(cand), cand, usedDefault, d))
			return
		}
	}
	if len(vKeys) >= 2 || p.D != nil {
		r.Nontrivial()
		r.Sample(map[string]any{"expr": c.Expr, "model_value": vKeys, "model_candidates": cand, "impl_default": fmt.Sprint(d)})
	}
	r.State(c.Expr)
}
