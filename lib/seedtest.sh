#!/bin/bash
# seedtest.sh <ID> <seed-dir> [tier]: apply a seeded change to /repo, run the check, undo it.
# Prints DETECTED / MISSED. Never leaves /repo modified.
# no other check may build from /repo while it is modified
. /verif/lib/env.sh; exec 9>"$WORK/build.lock"; flock 9; export VERIF_BUILD_LOCKED=1
ID="$1"; DIR="$2"; TIER="${3:-quick}"
cd /repo || exit 2
if [ -n "$(git status --porcelain)" ]; then echo "repo not clean"; exit 2; fi
git apply "$DIR/patch.diff" || { echo "patch does not apply"; exit 2; }
cd /verif
out=$(./check "$ID" --tier "$TIER" 2>&1); rc=$?
git -C /repo checkout -- . ; git -C /repo clean -fdq
echo "$out" | grep -E "^$ID |^VIOLATION|^  key|ENGINE-ERROR" | head -8
if [ $rc -eq 1 ]; then echo "RESULT $ID $(basename $DIR): DETECTED"; else echo "RESULT $ID $(basename $DIR): MISSED (rc=$rc)"; fi
