//go:build race

package racelog

// Enabled reports whether the binary was built with -race.
const Enabled = true
