// Package c20: cue trim removes only what is implied.
//
// E1: every package made of <=k declarations from a schema+data pool, in every
// partition over 1-2 files (and both file orders), and every trim testdata
// archive with every literal replaced by another literal of its kind.
// Oracle: after trim.Files the files still parse and build, the canonical value
// with defaults resolved is identical at every path (same data, same errors),
// and trimming again removes nothing more.
package c20

import (
	"bytes"
	"encoding/json"
	"fmt"
	"os"
	"path/filepath"
	"sort"
	"strings"

	"cuelang.org/go/cue"
	"cuelang.org/go/cue/ast"
	"cuelang.org/go/cue/build"
	"cuelang.org/go/cue/cuecontext"
	"cuelang.org/go/cue/format"
	"cuelang.org/go/cue/load"
	"cuelang.org/go/cue/parser"
	"cuelang.org/go/cue/token"
	"cuelang.org/go/internal/verif/canon"
	"cuelang.org/go/internal/verif/core"
	"cuelang.org/go/internal/verif/gen"
	"cuelang.org/go/tools/trim"
)

func init() {
	core.Register(&core.Prop{
		ID: "C20",
		Rule: "E1 bounded-exhaustive: every multiset of <=k declarations from a 62-declaration pool (definitions, patterns, defaults, comprehensions, embedded disjunctions + data that repeats / partially repeats / refines / contradicts them, references and let into removable fields) x every partition into 1-2 files x file order; " +
			"every tools/trim/testdata archive unmutated and with each literal replaced by another literal of its kind. Non-trivial = packages where trim removed at least one declaration.",
		Assumptions: []string{"comparison through canon with defaults resolved (TakeDefaults) and all fields (optional, hidden, definitions) included; closedness probes included"},
		Run:         run, Replay: replay,
		RequireOutcomes: []string{"trimmed", "unchanged"},
		BudgetQuick:     200, BudgetThorough: 1500,
	})
}

type kase struct {
	Files []string `json:"files"` // file contents (package clause added)
	Name  string   `json:"name"`
}

var pool = []string{
	// schema side
	`#D: {a: int, b: *1 | int, c?: string}`, `o: #D`, `[string]: {x?: int}`, `src: {p: 1, q: 2}`, `for k, v in src {(k): v}`,
	`e: {kind: "a", p: 1} | {kind: "b", q: 2}`, `d: *1 | int`, `t: {x: int | *2, y: string}`, `l: [...{x: *1 | int}]`,
	`s: [string]: {x: *1 | int, y: int}`, `s: [=~"^f"]: {y: 2}`, `u: {a: 1, b: a}`, `w: #D & {a: 5}`, `n: {m: {k: 1}}`, `n: m: k: int`,
	`if d == 1 {g: 1}`, `h: {#D, z: 1}`, `v: *{x: 1} | {x: 2}`,
	// a comprehension that ranges over a struct and writes back into it
	`cd: port: 8080`, `for k, v in cs {cs: (k): cd}`,
	// a field that is referenced only from inside a string interpolation
	`md: *1 | *2 | int`, `ml: [...{mode: *"ro" | *"rw" | string}]`,
	`iv: {name: string, url: "h-\(name)"}`, `#IS: {name: string, meta: host: "\(name).svc"}`, `is: #IS`,
	// data side
	`o: {a: 5}`, `o: {a: 5, b: 1}`, `o: {a: 5, b: 2}`, `o: b: 1`, `p: 1`, `p: 2`, `q: 2`, `e: kind: "a"`, `e: {kind: "a", p: 1}`, `e: {kind: "b", q: 2}`,
	`e: {kind: "b", q: 3}`, `d: 1`, `d: 2`, `t: x: 2`, `t: {x: 2, y: "s"}`, `t: {x: 3, y: "s"}`, `l: [{x: 1}]`, `l: [{x: 1}, {x: 2}]`,
	`s: foo: {x: 1, y: 2}`, `s: foo: x: 1`, `s: bar: {x: 2, y: 3}`, `r: t.x`, `let L = d`, `m: L`, `u: b: 1`, `w: b: 1`, `n: m: k: 1`, `g: 1`, `h: a: 5`, `v: x: 1`,
	`cs: x: {port: 8080}`, `cs: y: {port: 9090}`,
	`iv: name: "web"`, `#IS: name: "foo"`,
	`md: 1`, `md: 2`, `ml: [{mode: "ro"}, {mode: "rw"}]`,
}

func resolvable(ds []string) bool {
	joined := "\n" + strings.Join(ds, "\n") + "\n"
	need := func(ref, decl string) bool { return !strings.Contains(joined, ref) || strings.Contains(joined, decl) }
	return need("#D", "\n#D:") && need(" in src", "\nsrc:") && need("t.x", "\nt:") && need("= d\n", "\nd:") && need(": L\n", "let L") && need("if d ", "\nd:") && need(" in cs", "\ncs:") && need(": cd}", "\ncd:") && need("is: #IS", "\n#IS: {")
}

func run(r *core.Run) {
	kmax := 3
	for k := 1; k <= kmax; k++ {
		r.Section(fmt.Sprintf("pool=%d k=%d x file partitions", len(pool), k))
		enumerate(r, k)
	}
	r.Section("trim testdata archives: unmutated + every literal replaced")
	seeds(r)
	if r.Thorough() {
		r.Section(fmt.Sprintf("pool=%d k=4 (single file and one split)", len(pool)))
		enumerate(r, 4)
	}
}

func enumerate(r *core.Run, k int) {
	gen.Multisets(k, len(pool), func(ix []int) bool {
		// no duplicate declarations: the same text twice adds nothing
		for i := 1; i < len(ix); i++ {
			if ix[i] == ix[i-1] {
				return true
			}
		}
		ds := make([]string, k)
		for i, j := range ix {
			ds[i] = pool[j]
		}
		if !resolvable(ds) {
			return true
		}
		hasLet := strings.Contains(strings.Join(ds, "\n"), "let L")
		// partitions into 1-2 files x order
		maxMask := 1 << k
		for mask := 0; mask < maxMask; mask++ {
			if k == 4 && mask != 0 && mask != 0b0101 {
				continue
			}
			var a, b []string
			for i, d := range ds {
				if mask&(1<<i) != 0 {
					b = append(b, d)
				} else {
					a = append(a, d)
				}
			}
			if len(a) == 0 {
				continue
			}
			if hasLet && len(b) > 0 {
				continue // let is file scoped
			}
			if !r.Mine() {
				if r.Expired() {
					return false
				}
				continue
			}
			files := []string{strings.Join(a, "\n") + "\n"}
			if len(b) > 0 {
				files = append(files, strings.Join(b, "\n")+"\n")
			}
			c := kase{Files: files, Name: "pg"}
			r.Guard(c, func() { check(r, c) })
		}
		return true
	})
}

func seeds(r *core.Run) {
	dir := filepath.Join(gen.RepoDir, "tools/trim/testdata")
	ents, _ := os.ReadDir(dir)
	var names []string
	for _, e := range ents {
		if strings.HasSuffix(e.Name(), ".txtar") {
			names = append(names, e.Name())
		}
	}
	sort.Strings(names)
	for _, n := range names {
		files := gen.Corpus([]string{"tools/trim/testdata/" + n}, 1<<20)
		var srcs []string
		for _, f := range files {
			if strings.Contains(f.Name, ":out/") {
				continue
			}
			srcs = append(srcs, string(f.Src))
		}
		if len(srcs) == 0 {
			continue
		}
		if r.Mine() {
			c := kase{Files: srcs, Name: n}
			r.Guard(c, func() { check(r, c) })
		}
		// literal replacements
		for fi, src := range srcs {
			f, err := parser.ParseFile("x.cue", src, parser.ParseComments)
			if err != nil {
				continue
			}
			var lits []*ast.BasicLit
			ast.Walk(f, func(n ast.Node) bool {
				if bl, ok := n.(*ast.BasicLit); ok && (bl.Kind == token.INT || bl.Kind == token.STRING || bl.Kind == token.FLOAT) {
					lits = append(lits, bl)
				}
				return true
			}, nil)
			for li, bl := range lits {
				if !r.Mine() {
					continue
				}
				old := bl.Value
				switch {
				case bl.Kind == token.INT:
					bl.Value = "7"
					if old == "7" {
						bl.Value = "8"
					}
				case bl.Kind == token.FLOAT:
					bl.Value = "7.5"
				case strings.HasPrefix(old, `"`) && !strings.HasPrefix(old, `"""`):
					bl.Value = `"zz"`
				default:
					bl.Value = old
				}
				b, err := format.Node(f)
				bl.Value = old
				if err != nil {
					continue
				}
				mut := append([]string{}, srcs...)
				mut[fi] = string(b)
				c := kase{Files: mut, Name: fmt.Sprintf("%s file%d lit%d", n, fi, li)}
				r.Guard(c, func() { check(r, c) })
			}
		}
		if r.Expired() {
			return
		}
	}
}

func replay(r *core.Run, raw json.RawMessage) {
	var c kase
	if err := json.Unmarshal(raw, &c); err != nil {
		r.EngineError(err.Error())
		return
	}
	check(r, c)
}

// buildPkg loads the sources the way the command line does (cue/load with an
// overlay): trim identifies conjuncts by the syntax nodes of the loaded files.
func buildPkg(ctx *cue.Context, srcs []string) (*build.Instance, cue.Value, error) {
	overlay := map[string]load.Source{}
	var args []string
	for i, s := range srcs {
		if !strings.Contains(s, "package ") {
			s = "package p\n\n" + s
		}
		name := fmt.Sprintf("f%d.cue", i)
		overlay["/virt/"+name] = load.FromString(s)
		args = append(args, name)
	}
	insts := load.Instances(args, &load.Config{Dir: "/virt", Overlay: overlay})
	if len(insts) != 1 {
		return nil, cue.Value{}, fmt.Errorf("%d instances", len(insts))
	}
	inst := insts[0]
	if inst.Err != nil {
		return nil, cue.Value{}, inst.Err
	}
	return inst, ctx.BuildInstance(inst), nil
}

func key(kind string, c kase) string {
	if c.Name != "pg" {
		return kind + ": " + c.Name
	}
	var all []string
	for _, f := range c.Files {
		all = append(all, strings.Split(strings.TrimSpace(f), "\n")...)
	}
	sort.Strings(all)
	return kind + ": " + strings.Join(all, "; ")
}

func trimOnce(ctx *cue.Context, srcs []string) (out []string, before cue.Value, err error) {
	inst, v, err := buildPkg(ctx, srcs)
	if err != nil {
		return nil, cue.Value{}, err
	}
	if err := trim.Files(inst.Files, v, &trim.Config{}); err != nil {
		return nil, v, fmt.Errorf("trim.Files: %w", err)
	}
	for _, f := range inst.Files {
		b, err := format.Node(f)
		if err != nil {
			return nil, v, fmt.Errorf("format after trim: %w", err)
		}
		out = append(out, string(b))
	}
	return out, v, nil
}

func check(r *core.Run, c kase) {
	ctx := cuecontext.New()
	if _, _, err := buildPkg(ctx, c.Files); err != nil {
		r.Outcome("unparseable")
		return
	}
	r.Trans(1)
	out, before, err := trimOnce(ctx, c.Files)
	if err != nil {
		if strings.HasPrefix(err.Error(), "trim.Files") {
			// trim may refuse (e.g. on erroneous packages); that is not a change
			r.Outcome("trim-refused")
			return
		}
		r.Violation(key("trimmed files cannot be printed", c), c, err.Error())
		return
	}
	ctx2 := cuecontext.New()
	_, after, err := buildPkg(ctx2, out)
	if err != nil {
		r.Violation(key("trimmed files do not parse", c), c, fmt.Sprintf("%v\n--- trimmed ---\n%s", err, strings.Join(out, "\n--- file ---\n")))
		return
	}
	o := canon.Opts{TakeDefaults: true}
	a, b := canon.New(ctx, o).Canon(before), canon.New(ctx2, o).Canon(after)
	if a != b {
		r.Violation(key("trim changes the evaluated configuration", c), c,
			fmt.Sprintf("--- original ---\n%s\n--- trimmed ---\n%s\ncanon before: %s\ncanon after:  %s", strings.Join(c.Files, "--- file ---\n"), strings.Join(out, "--- file ---\n"), a, b))
		return
	}
	// idempotence
	out2, _, err := trimOnce(cuecontext.New(), out)
	if err != nil {
		r.Violation(key("second trim fails", c), c, err.Error())
		return
	}
	if strings.Join(out, "\x00") != strings.Join(out2, "\x00") {
		r.Violation(key("trim is not idempotent", c), c, fmt.Sprintf("--- original ---\n%s\n--- once ---\n%s\n--- twice ---\n%s", strings.Join(c.Files, "--- file ---\n"), strings.Join(out, "--- file ---\n"), strings.Join(out2, "--- file ---\n")))
		return
	}
	// did trim remove anything? compare with the untrimmed formatting
	var plain []string
	for i, s := range c.Files {
		if !strings.Contains(s, "package ") {
			s = "package p\n\n" + s
		}
		f, _ := parser.ParseFile(fmt.Sprintf("f%d.cue", i), s, parser.ParseComments)
		pb, _ := format.Node(f)
		plain = append(plain, string(pb))
	}
	if !bytes.Equal([]byte(strings.Join(plain, "\x00")), []byte(strings.Join(out, "\x00"))) {
		r.Outcome("trimmed")
		r.Nontrivial()
		r.Sample(map[string]any{"original": c.Files, "trimmed": out})
	} else {
		r.Outcome("unchanged")
	}
	r.State(a)
}
