# Sourced by every script: offline Go 1.25 toolchain for /repo.
export GOFLAGS=-mod=mod GOPROXY=off GOTOOLCHAIN=local
unset GOSUMDB
export GO125=/root/go/pkg/mod/golang.org/toolchain@v0.0.1-go1.25.0.linux-amd64/bin/go
export PATH="$(dirname $GO125):$PATH"
export VERIF=/verif REPO=/repo WORK=/verif/.work
mkdir -p "$WORK/bin" "$WORK/tmp"
