// Package gen holds generators shared by harnesses: token soups, the
// repository corpus, the data generator and the program grammar.
package gen

import (
	"bytes"
	"io/fs"
	"os"
	"path/filepath"
	"sort"
	"strings"
)

const RepoDir = "/repo"

// CorpusFile is one CUE source taken from the repository (a .cue file or a
// .cue section of a txtar archive).
type CorpusFile struct {
	Name string
	Src  []byte
}

// Corpus returns every .cue source found under the given repository
// sub-directories, deterministically ordered. maxSize filters large files.
func Corpus(subdirs []string, maxSize int) []CorpusFile {
	var out []CorpusFile
	for _, sd := range subdirs {
		root := filepath.Join(RepoDir, sd)
		filepath.WalkDir(root, func(p string, d fs.DirEntry, err error) error {
			if err != nil || d.IsDir() {
				return nil
			}
			rel, _ := filepath.Rel(RepoDir, p)
			switch {
			case strings.HasSuffix(p, ".cue"):
				b, err := os.ReadFile(p)
				if err == nil && len(b) <= maxSize {
					out = append(out, CorpusFile{rel, b})
				}
			case strings.HasSuffix(p, ".txtar") || strings.HasSuffix(p, ".txt"):
				b, err := os.ReadFile(p)
				if err != nil {
					return nil
				}
				for _, s := range txtarSections(b) {
					if strings.HasSuffix(s.name, ".cue") && len(s.data) <= maxSize && len(s.data) > 0 {
						out = append(out, CorpusFile{rel + ":" + s.name, s.data})
					}
				}
			}
			return nil
		})
	}
	sort.Slice(out, func(i, j int) bool { return out[i].Name < out[j].Name })
	return out
}

type section struct {
	name string
	data []byte
}

// txtarSections is a minimal txtar reader ("-- name --" markers).
func txtarSections(b []byte) []section {
	var out []section
	var cur *section
	for len(b) > 0 {
		line := b
		if i := bytes.IndexByte(b, '\n'); i >= 0 {
			line, b = b[:i+1], b[i+1:]
		} else {
			b = nil
		}
		t := bytes.TrimRight(line, "\r\n")
		if bytes.HasPrefix(t, []byte("-- ")) && bytes.HasSuffix(t, []byte(" --")) && len(t) >= 7 {
			out = append(out, section{name: strings.TrimSpace(string(t[3 : len(t)-3]))})
			cur = &out[len(out)-1]
			continue
		}
		if cur != nil {
			cur.data = append(cur.data, line...)
		}
	}
	return out
}

// Tuples calls f with every index tuple of length n over [0,k), in
// lexicographic order. f returns false to stop.
func Tuples(n, k int, f func(ix []int) bool) {
	ix := make([]int, n)
	for {
		if !f(ix) {
			return
		}
		i := n - 1
		for i >= 0 {
			ix[i]++
			if ix[i] < k {
				break
			}
			ix[i] = 0
			i--
		}
		if i < 0 {
			return
		}
	}
}
