// Package c06: arithmetic, comparison and numeric builtins are exact.
//
// E1: every operand pair of a boundary set x every operator, and every number
// literal spelling up to a length bound, on the real evaluator, against
// math/big and an independent literal grammar.
package c06

import (
	"encoding/json"
	"fmt"
	"math/big"
	"strings"

	"cuelang.org/go/cue"
	"cuelang.org/go/cue/cuecontext"
	"cuelang.org/go/cue/literal"
	"cuelang.org/go/internal/verif/canon"
	"cuelang.org/go/internal/verif/core"
	"cuelang.org/go/internal/verif/gen"
	"cuelang.org/go/internal/verif/model"
)

func init() {
	core.Register(&core.Prop{
		ID: "C06",
		Rule: "E1 bounded-exhaustive: S x S x 15 operators where S is a boundary operand set (small values, 2^31/32/53/63/64 +-1, 10^k +-1 for k around 16/34/40/77, 33-36 digit repdigits, decimals with 1-35 fraction digits) as int and float spellings; " +
			"every literal spelling <=L over a 17-character alphabet. Oracle: math/big exact arithmetic, half-even rounding to 34 digits for / and for inexact float results, independent spec grammar for literals. Non-trivial = pairs with a non-zero, non-error exact result / spellings the grammar accepts.",
		Assumptions: []string{"documented precision = 34 significant decimal digits (apd context); float +,-,* must be exact when the exact result fits and correctly rounded otherwise; integer +,-,* must always be exact"},
		Run:         run, Replay: replay,
		RequireOutcomes: []string{"op:ok", "op:error-expected", "lit:valid", "lit:invalid"},
		BudgetQuick:     150, BudgetThorough: 1500,
	})
}

type operand struct {
	Src  string
	Kind string // int | float
	Val  *big.Rat
}

func operands() []operand {
	var out []operand
	seen := map[string]bool{}
	addInt := func(n *big.Int) {
		s := n.String()
		if seen[s] {
			return
		}
		seen[s] = true
		out = append(out, operand{Src: s, Kind: "int", Val: new(big.Rat).SetInt(n)})
	}
	addFloat := func(s string) {
		if seen[s] {
			return
		}
		seen[s] = true
		r, ok := new(big.Rat).SetString(s)
		if !ok {
			panic(s)
		}
		out = append(out, operand{Src: s, Kind: "float", Val: r})
	}
	for _, n := range []int64{0, 1, -1, 2, -2, 3, -3, 7, -7, 10, -10} {
		addInt(big.NewInt(n))
	}
	one := big.NewInt(1)
	for _, sh := range []uint{31, 32, 53, 63, 64} {
		p := new(big.Int).Lsh(one, sh)
		addInt(new(big.Int).Sub(p, one))
		addInt(p)
		addInt(new(big.Int).Add(p, one))
		addInt(new(big.Int).Neg(p))
	}
	for _, k := range []int{15, 16, 17, 33, 34, 35, 40, 77} {
		p := new(big.Int).Exp(big.NewInt(10), big.NewInt(int64(k)), nil)
		addInt(new(big.Int).Sub(p, one))
		addInt(p)
		addInt(new(big.Int).Add(p, one))
	}
	for _, n := range []int{33, 34, 35, 36} {
		for _, d := range []string{"1", "9", "7"} {
			v, _ := new(big.Int).SetString(strings.Repeat(d, n), 10)
			addInt(v)
		}
	}
	v, _ := new(big.Int).SetString("-"+strings.Repeat("9", 35), 10)
	addInt(v)
	for _, f := range []string{"0.0", "0.1", "0.5", "1.5", "2.5", "-0.5", "-1.5", "1.0", "3.0", "1e-7", "1e10", "1e-40", "123.456",
		"0." + strings.Repeat("3", 33), "0." + strings.Repeat("3", 34), "0." + strings.Repeat("3", 35),
		strings.Repeat("1", 34) + ".5", strings.Repeat("9", 33) + ".9", "1e34", "9.999999999999999999999999999999999e33", "1e6144"} {
		addFloat(f)
	}
	return out
}

var ops = []string{"+", "-", "*", "/", "==", "!=", "<", "<=", ">", ">=", "div", "mod", "quo", "rem"}

type kase struct {
	Kind string `json:"kind"` // op | lit
	A    string `json:"a,omitempty"`
	B    string `json:"b,omitempty"`
	Op   string `json:"op,omitempty"`
	Lit  string `json:"lit,omitempty"`
}

var litAlpha = []string{"0", "1", "9", "_", ".", "e", "E", "+", "-", "x", "b", "o", "f", "K", "M", "G", "i"}

func run(r *core.Run) {
	S := operands()
	ctx := cuecontext.New()
	n := 0
	r.Section(fmt.Sprintf("operands=%d x operands x %d operators", len(S), len(ops)))
	for _, a := range S {
		for _, b := range S {
			for _, op := range ops {
				if !r.Mine() {
					continue
				}
				n++
				if n%3000 == 0 {
					ctx = cuecontext.New()
				}
				c := kase{Kind: "op", A: a.Src, B: b.Src, Op: op}
				r.Guard(c, func() { checkOp(r, ctx, a, b, op, c) })
			}
		}
		if r.Expired() {
			break
		}
	}
	litL := 6
	if r.Thorough() {
		litL = 7
	}
	for l := 1; l <= litL; l++ {
		r.Section(fmt.Sprintf("literal spellings <=%d", l))
		gen.Tuples(l, len(litAlpha), func(ix []int) bool {
			if !r.Mine() {
				return !r.Expired()
			}
			var sb strings.Builder
			for _, i := range ix {
				sb.WriteString(litAlpha[i])
			}
			c := kase{Kind: "lit", Lit: sb.String()}
			n++
			if n%3000 == 0 {
				ctx = cuecontext.New()
			}
			r.Guard(c, func() { checkLit(r, ctx, c) })
			return true
		})
	}
	// print -> parse round trip of every operand and of every op result is part of checkOp
}

func replay(r *core.Run, raw json.RawMessage) {
	var c kase
	if err := json.Unmarshal(raw, &c); err != nil {
		r.EngineError(err.Error())
		return
	}
	ctx := cuecontext.New()
	if c.Kind == "lit" {
		checkLit(r, ctx, c)
		return
	}
	var a, b operand
	for _, o := range operands() {
		if o.Src == c.A {
			a = o
		}
		if o.Src == c.B {
			b = o
		}
	}
	checkOp(r, ctx, a, b, c.Op, c)
}

// numOf extracts kind and exact value of a concrete number.
func numOf(v cue.Value) (kind string, val *big.Rat, ok bool) {
	switch v.Kind() {
	case cue.IntKind:
		kind = "int"
	case cue.FloatKind:
		kind = "float"
	default:
		return "", nil, false
	}
	b, err := v.MarshalJSON()
	if err != nil {
		return kind, nil, false
	}
	val, ok = new(big.Rat).SetString(string(b))
	return kind, val, ok
}

func par(s string) string {
	if strings.HasPrefix(s, "-") {
		return "(" + s + ")"
	}
	return s
}

func class(o operand) string {
	d := model.SigDigits(o.Val)
	switch {
	case d > 34:
		return o.Kind + ">34d"
	case d > 16:
		return o.Kind + ">16d"
	}
	return o.Kind
}

func checkOp(r *core.Run, ctx *cue.Context, a, b operand, op string, c kase) {
	var expr string
	switch op {
	case "div", "mod", "quo", "rem":
		expr = fmt.Sprintf("%s(%s, %s)", op, a.Src, b.Src)
	default:
		expr = fmt.Sprintf("%s %s %s", par(a.Src), op, par(b.Src))
	}
	v := ctx.CompileString(expr)
	r.Trans(1)
	isErr := canon.ErrClass(v) != ""
	bothInt := a.Kind == "int" && b.Kind == "int"
	fail := func(kind, msg string) {
		r.Violation(fmt.Sprintf("%s: %s %s %s [%s,%s]", kind, a.Src, op, b.Src, class(a), class(b)), c, expr+": "+msg)
	}
	switch op {
	case "+", "-", "*":
		exact := new(big.Rat)
		switch op {
		case "+":
			exact.Add(a.Val, b.Val)
		case "-":
			exact.Sub(a.Val, b.Val)
		case "*":
			exact.Mul(a.Val, b.Val)
		}
		wantKind := "float"
		if bothInt {
			wantKind = "int"
		}
		kind, got, ok := numOf(v)
		if isErr || !ok {
			if strings.Contains(a.Src, "e6144") || strings.Contains(b.Src, "e6144") {
				r.Outcome("op:overflow-range")
				return // exponent overflow is allowed to be an error
			}
			fail("arith: unexpected error", fmt.Sprint(v.Err()))
			return
		}
		if kind != wantKind {
			fail("arith: wrong kind "+kind+" want "+wantKind, fmt.Sprint(v))
			return
		}
		if got.Cmp(exact) != 0 {
			if bothInt {
				if model.SigDigits(exact) > 34 && got.Cmp(model.Round(exact, 34)) == 0 {
					// the precise predicate of the known finding
					r.Violation("arith: int result silently rounded to 34 digits (exact result needs more)", c, fmt.Sprintf("%s = %v, exact %s", expr, v, exact.RatString()))
					return
				}
				fail("arith: int result inexact", fmt.Sprintf("got %v, exact %s", v, exact.RatString()))
				return
			}
			if model.SigDigits(exact) > 34 && model.IsNearest(got, exact, 34) {
				r.Outcome("op:rounded-34")
			} else {
				fail("arith: float result neither exact nor correctly rounded", fmt.Sprintf("got %v, exact %s, rounded %s", v, exact.RatString(), model.Round(exact, 34).RatString()))
				return
			}
		}
		r.Outcome("op:ok")
		if exact.Sign() != 0 {
			r.Nontrivial()
			r.Sample(map[string]string{"expr": expr, "result": fmt.Sprint(v)})
		}
		roundTrip(r, ctx, v, c, expr)
	case "/":
		if b.Val.Sign() == 0 {
			r.Outcome("op:error-expected")
			if !isErr {
				fail("division by zero accepted", fmt.Sprint(v))
			}
			return
		}
		exact := new(big.Rat).Quo(a.Val, b.Val)
		kind, got, ok := numOf(v)
		if isErr || !ok {
			if strings.Contains(a.Src, "e6144") || strings.Contains(b.Src, "e6144") {
				r.Outcome("op:overflow-range")
				return
			}
			fail("arith: unexpected error", fmt.Sprint(v.Err()))
			return
		}
		if kind != "float" {
			fail("arith: / result is not float", fmt.Sprint(v))
			return
		}
		want := exact
		exactFits := true
		if d := model.SigDigits(exact); d < 0 || d > 34 {
			want = model.Round(exact, 34)
			exactFits = false
		}
		if exactFits && got.Cmp(exact) != 0 || !exactFits && !model.IsNearest(got, exact, 34) {
			fail("arith: quotient not correctly rounded to 34 digits", fmt.Sprintf("got %v, want %s", v, want.RatString()))
			return
		}
		r.Outcome("op:ok")
		r.Nontrivial()
	case "==", "!=", "<", "<=", ">", ">=":
		cmp := a.Val.Cmp(b.Val)
		want := map[string]bool{"==": cmp == 0, "!=": cmp != 0, "<": cmp < 0, "<=": cmp <= 0, ">": cmp > 0, ">=": cmp >= 0}[op]
		got, err := v.Bool()
		if err != nil {
			fail("compare: not a bool", fmt.Sprint(v.Err()))
			return
		}
		if got != want {
			fail("compare: wrong answer", fmt.Sprintf("got %v want %v", got, want))
			return
		}
		r.Outcome("op:ok")
		if cmp != 0 {
			r.Nontrivial()
		}
	default: // div mod quo rem
		if !bothInt {
			r.Outcome("op:skipped-nonint")
			return
		}
		if b.Val.Sign() == 0 {
			r.Outcome("op:error-expected")
			if !isErr {
				fail("integer division by zero accepted", fmt.Sprint(v))
			}
			return
		}
		x, y := a.Val.Num(), b.Val.Num()
		q, m := new(big.Int), new(big.Int)
		switch op {
		case "div":
			q.DivMod(x, y, m)
		case "mod":
			m.DivMod(x, y, q)
			q, m = q, m
			q.DivMod(x, y, m)
			q = m
		case "quo":
			q.QuoRem(x, y, m)
		case "rem":
			q.QuoRem(x, y, m)
			q = m
		}
		kind, got, ok := numOf(v)
		if isErr || !ok || kind != "int" {
			fail("intdiv: unexpected error or kind", fmt.Sprintf("%v err=%v", v, v.Err()))
			return
		}
		if got.Cmp(new(big.Rat).SetInt(q)) != 0 {
			fail("intdiv: wrong result", fmt.Sprintf("got %v want %s", v, q))
			return
		}
		r.Outcome("op:ok")
		r.Nontrivial()
	}
}

// roundTrip: printing a number and reading it back gives the same number.
func roundTrip(r *core.Run, ctx *cue.Context, v cue.Value, c kase, expr string) {
	k1, x1, ok := numOf(v)
	if !ok {
		return
	}
	txt := fmt.Sprint(v)
	w := ctx.CompileString(txt)
	k2, x2, ok2 := numOf(w)
	r.Trans(1)
	if !ok2 || k1 != k2 || x1.Cmp(x2) != 0 {
		r.Violation("print/parse round trip changes the number: "+expr, c, fmt.Sprintf("%s printed as %q reads back as %v (%s)", expr, txt, w, k2))
	}
}

func checkLit(r *core.Run, ctx *cue.Context, c kase) {
	s := c.Lit
	m := model.ParseNumLit(s)
	var ni literal.NumInfo
	perr := literal.ParseNum(s, &ni)
	r.Trans(1)
	signed := s[0] == '+' || s[0] == '-'
	if signed {
		// ParseNum handles a sign; the grammar has none: compare on the rest.
		m = model.ParseNumLit(s[1:])
		if m.OK && s[0] == '-' {
			m.Value = new(big.Rat).Neg(m.Value)
		}
	}
	if !m.OK {
		// The property is about the spellings the grammar allows; what the
		// implementation does with other spellings is C09's subject
		// (scanner/parser/literal agreement).
		r.Outcome("lit:invalid")
		if perr == nil {
			r.Count("lenient_spellings_accepted_by_ParseNum", 1)
		}
		return
	}
	r.Outcome("lit:valid")
	if m.Frac {
		// spec: "When multiplying a fraction by a multiplier, the result is
		// truncated towards zero if it is not an integer."
		r.Outcome("lit:si-fraction")
		if perr != nil {
			r.Violation("literal: fractional SI literal rejected (spec: truncated towards zero): "+siClass(s), c, fmt.Sprintf("%s: %v; spec value %s", s, perr, m.Value.RatString()))
			return
		}
		// accepted: then it denotes the truncated product, as an int
		if signed {
			return
		}
		trunc := new(big.Rat).SetInt(new(big.Int).Quo(m.Value.Num(), m.Value.Denom()))
		v := ctx.CompileString(s)
		kind, got, ok := numOf(v)
		if !ok || kind != "int" || got.Cmp(trunc) != 0 {
			r.Violation("literal: accepted fractional SI literal does not denote the truncated product: "+s, c, fmt.Sprintf("got %s %v (err %v), exact product %s, spec value %s", kind, v, v.Err(), m.Value.RatString(), trunc.RatString()))
		}
		return
	}
	if perr != nil {
		r.Violation("literal: ParseNum rejects a spelling the spec grammar accepts: "+s, c, perr.Error())
		return
	}
	if ni.IsInt() != (m.Kind == "int") {
		r.Violation("literal: int/float kind differs from the spec: "+s, c, fmt.Sprintf("IsInt=%v spec kind %s", ni.IsInt(), m.Kind))
		return
	}
	if signed {
		return
	}
	// evaluated value
	v := ctx.CompileString(s)
	kind, got, ok := numOf(v)
	if !ok {
		r.Violation("literal: valid literal does not evaluate to a number: "+s, c, fmt.Sprint(v.Err()))
		return
	}
	if kind != m.Kind || got.Cmp(m.Value) != 0 {
		r.Violation("literal: value differs from the spec: "+s, c, fmt.Sprintf("got %s %v, spec %s %s", kind, v, m.Kind, m.Value.RatString()))
		return
	}
	r.Nontrivial()
	r.Sample(map[string]string{"literal": s, "value": m.Value.RatString(), "kind": m.Kind})
	roundTrip(r, ctx, v, c, s)
}

func siClass(s string) string {
	if strings.HasSuffix(s, "i") {
		return "binary multiplier"
	}
	return "decimal multiplier"
}
