#!/usr/bin/env python3-vt
"""Independent JSON Schema oracle for C13: reads {"schemas": [...], "instances": [...]} from the
file given as argv[1], writes to argv[2] a JSON list with one string per schema: a character per
instance ('1' valid, '0' invalid) or "E" if the schema itself is not a valid 2020-12 schema."""
import json, sys
from jsonschema import Draft202012Validator
from jsonschema.exceptions import SchemaError
d = json.load(open(sys.argv[1]))
out = []
for s in d["schemas"]:
    try:
        Draft202012Validator.check_schema(s)
        v = Draft202012Validator(s)
        out.append("".join("1" if v.is_valid(i) else "0" for i in d["instances"]))
    except Exception as e:  # SchemaError, RefResolutionError, RecursionError ...
        out.append("E")
json.dump(out, open(sys.argv[2], "w"))
