// Package c05: field constraints, patterns and closedness admit exactly what
// the spec allows.
//
// E1: every schema of a bounded fragment (struct literals of <=m members over
// labels a b c: regular/optional/required fields with int, 1 or nested struct
// values, 4 patterns, ..., embeddings of a literal / close() / a definition;
// reached plain, through close(), through a definition #S, or through #T.f;
// conjunctions of <=3) x every data struct of a bounded set, on the real
// evaluator, against model.Accepts.
package c05

import (
	"encoding/json"
	"fmt"
	"sort"
	"strings"

	"cuelang.org/go/cue"
	"cuelang.org/go/cue/cuecontext"
	"cuelang.org/go/internal/verif/core"
	"cuelang.org/go/internal/verif/model"
)

func init() {
	core.Register(&core.Prop{
		ID: "C05",
		Rule: "E1 bounded-exhaustive: schemas = struct literals with <=m members from a 30-member alphabet x 6 ways of reaching them (open literal, close(), #S, #T.f, #T[\"f\"], #L[0]), single and in conjunctions of 2-3; x every data struct over labels a b c (+ hidden/definition field variants); " +
			"oracle = independent membership checker. Non-trivial = schema conjunctions that accept some and reject some data structs.",
		Assumptions: []string{"model in /verif/src/model/structs.go", "success = Validate(cue.Final()) == nil (missing required fields are errors, non-concrete regular fields are not)"},
		Run:         run, Replay: replay,
		RequireOutcomes: []string{"accept", "reject-closed", "reject-required", "reject-constraint"},
		BudgetQuick:     150, BudgetThorough: 1500,
	})
}

// member is one element of a struct literal.
type member struct {
	src   string
	apply func(s *model.Schema)
}

func intV() model.SVal                   { return model.SVal{Kind: "int"} }
func oneV() model.SVal                   { return model.SVal{Kind: "1"} }
func structV(s *model.Schema) model.SVal { return model.SVal{Kind: "struct", S: s} }

func fld(label, marker string, v model.SVal) member {
	return member{src: label + marker, apply: func(s *model.Schema) {
		s.Fields = append(s.Fields, model.SField{Label: label, Marker: marker, Val: v})
	}}
}
func pat(p string, v model.SVal) member {
	return member{src: "[" + p + "]", apply: func(s *model.Schema) { s.Pats = append(s.Pats, model.SPat{Src: p, Val: v}) }}
}
func emb(e *model.Schema) member {
	return member{src: "embed " + e.Ref(), apply: func(s *model.Schema) { s.Embeds = append(s.Embeds, e) }}
}

var (
	nestB    = &model.Schema{Fields: []model.SField{{Label: "b", Val: intV()}}}
	nestBopt = &model.Schema{Fields: []model.SField{{Label: "b", Marker: "?", Val: intV()}}}
	nestAreq = &model.Schema{Fields: []model.SField{{Label: "a", Marker: "!", Val: intV()}}}
	embLit   = &model.Schema{Fields: []model.SField{{Label: "b", Val: intV()}}}
	embClose = &model.Schema{Fields: []model.SField{{Label: "b", Marker: "?", Val: intV()}}, CloseHere: true}
	embDef   = &model.Schema{Fields: []model.SField{{Label: "b", Marker: "?", Val: intV()}}, Def: true, DefName: "#E0"}
	embDefN  = &model.Schema{Fields: []model.SField{{Label: "a", Marker: "?", Val: structV(nestBopt)}}, Def: true, DefName: "#E1"}
	embPat   = &model.Schema{Pats: []model.SPat{{Src: `=~"^a"`, Val: intV()}}, CloseHere: true}
	// an open struct with an embedding of its own, used as a field value
	// (embeddings at two nesting levels)
	nestEmb = &model.Schema{Embeds: []*model.Schema{{Fields: []model.SField{{Label: "c", Marker: "?", Val: intV()}}}}}
	nestC   = &model.Schema{Fields: []model.SField{{Label: "c", Marker: "?", Val: intV()}}}
	// definitions used as field values (closed subtrees reached through a field)
	defN0 = &model.Schema{Fields: []model.SField{{Label: "b", Val: structV(nestC)}}, Embeds: []*model.Schema{{Fields: []model.SField{{Label: "a", Marker: "?", Val: intV()}}, CloseHere: true}}, Def: true, DefName: "#N0"}
	defN1 = &model.Schema{Fields: []model.SField{{Label: "a", Marker: "?", Val: intV()}, {Label: "b", Val: structV(nestC)}}, Def: true, DefName: "#N1"}
	defN2 = &model.Schema{Fields: []model.SField{{Label: "b", Val: structV(nestC)}}, Embeds: []*model.Schema{{Fields: []model.SField{{Label: "a", Marker: "?", Val: intV()}}}}, Def: true, DefName: "#N2"}
)

const preamble = "#E0: {b?: int}\n#E1: {a?: {b?: int}}\n#N0: {close({a?: int}), b: {c?: int}}\n#N1: {a?: int, b: {c?: int}}\n#N2: {{a?: int}, b: {c?: int}}\n"

func members(full bool) []member {
	ms := []member{
		fld("a", "", intV()), fld("a", "?", intV()), fld("a", "!", intV()), fld("a", "", oneV()), fld("a", "?", oneV()),
		fld("b", "", intV()), fld("b", "?", intV()), fld("b", "!", intV()),
		fld("c", "?", intV()),
		fld("a", "", structV(nestB)), fld("a", "?", structV(nestBopt)), fld("a", "?", structV(nestAreq)),
		pat("string", intV()), pat(`=~"^a"`, intV()), pat(`=~"^[ab]"`, intV()), pat(`"b"`, intV()),
		pat(`=~"^a"`, structV(nestBopt)),
		{src: "...", apply: func(s *model.Schema) { s.Ellipsis = true }},
		emb(embLit), emb(embClose), emb(embDef), emb(embDefN), emb(embPat),
		fld("b", "?", structV(defN0)), fld("b", "", structV(defN1)), fld("b", "?", structV(defN2)), emb(&model.Schema{Fields: []model.SField{{Label: "c", Val: intV()}}}),
		fld("a", "", structV(nestEmb)), fld("c", "?", structV(nestEmb)),
	}
	if full {
		ms = append(ms, fld("a", "!", oneV()), fld("b", "", oneV()), fld("c", "", intV()), fld("c", "!", intV()),
			fld("b", "?", structV(nestB)), pat("string", structV(nestBopt)), fld("_h", "", intV()))
	}
	return ms
}

// reach describes how a literal is reached.
var reaches = []string{"open", "close", "def", "deffield", "defindex", "deflist"}

type schemaSpec struct {
	Members []int  `json:"members"`
	Reach   string `json:"reach"`
}

type kase struct {
	Schemas []schemaSpec `json:"schemas"`
	Full    bool         `json:"full"`
	Program string       `json:"program,omitempty"`
}

// build constructs the model schema and the CUE text for one spec; idx makes
// definition names unique.
func build(spec schemaSpec, ms []member, idx int) (s *model.Schema, decl, ref string) {
	s = &model.Schema{}
	for _, m := range spec.Members {
		ms[m].apply(s)
	}
	switch spec.Reach {
	case "open":
		return s, "", s.Lit()
	case "close":
		s.CloseHere = true
		return s, "", s.Ref()
	case "def":
		s.Def = true
		s.DefName = fmt.Sprintf("#S%d", idx)
		return s, fmt.Sprintf("%s: %s\n", s.DefName, s.Lit()), s.DefName
	case "deflet": // a let alias of a definition
		s.Def = true
		s.DefName = fmt.Sprintf("LA%d", idx)
		return s, fmt.Sprintf("#S%d: %s\nlet LA%d = #S%d\n", idx, s.Lit(), idx, idx), s.DefName
	case "defletfield": // a let alias of a field of a definition
		s.Def = true
		s.DefName = fmt.Sprintf("LF%d", idx)
		return s, fmt.Sprintf("#T%d: {f: %s}\nlet LF%d = #T%d.f\n", idx, s.Lit(), idx, idx), s.DefName
	case "defindex": // a field of a definition reached through an index expression
		s.Def = true
		name := fmt.Sprintf("#T%d", idx)
		s.DefName = name + `["f"]`
		return s, fmt.Sprintf("%s: {f: %s}\n", name, s.Lit()), s.DefName
	case "deflist": // an element of a list inside a definition
		s.Def = true
		name := fmt.Sprintf("#L%d", idx)
		s.DefName = name + "[0]"
		return s, fmt.Sprintf("%s: [%s]\n", name, s.Lit()), s.DefName
	default: // deffield
		s.Def = true
		name := fmt.Sprintf("#T%d", idx)
		s.DefName = name + ".f"
		return s, fmt.Sprintf("%s: {f: %s}\n", name, s.Lit()), s.DefName
	}
}

func dataSet(full bool) []map[string]model.DVal {
	one := model.DVal{Kind: "1"}
	x := model.DVal{Kind: "x"}
	sa := model.DVal{Kind: "struct", Fields: map[string]model.DVal{"a": one}}
	sb := model.DVal{Kind: "struct", Fields: map[string]model.DVal{"b": one}}
	se := model.DVal{Kind: "struct", Fields: map[string]model.DVal{}}
	none := model.DVal{}
	av := []model.DVal{none, one, x, sa, sb, se}
	bv := []model.DVal{none, one, x}
	cv := []model.DVal{none, one}
	if full {
		bv = []model.DVal{none, one, x, sb}
		cv = []model.DVal{none, one, x}
	}
	var out []map[string]model.DVal
	for _, a := range av {
		for _, b := range bv {
			for _, c := range cv {
				d := map[string]model.DVal{}
				if a.Kind != "" {
					d["a"] = a
				}
				if b.Kind != "" {
					d["b"] = b
				}
				if c.Kind != "" {
					d["c"] = c
				}
				out = append(out, d)
			}
		}
	}
	// deeper data below b (definitions reached through a field close recursively)
	c1 := model.DVal{Kind: "struct", Fields: map[string]model.DVal{"c": one}}
	z1 := model.DVal{Kind: "struct", Fields: map[string]model.DVal{"z": one}}
	cz := model.DVal{Kind: "struct", Fields: map[string]model.DVal{"c": one, "z": one}}
	for _, inner := range []model.DVal{c1, z1, cz, se} {
		out = append(out, map[string]model.DVal{"b": {Kind: "struct", Fields: map[string]model.DVal{"b": inner}}},
			map[string]model.DVal{"b": {Kind: "struct", Fields: map[string]model.DVal{"b": inner, "a": one}}})
	}
	out = append(out, map[string]model.DVal{"b": z1}, map[string]model.DVal{"b": {Kind: "struct", Fields: map[string]model.DVal{"a": one, "z": one}}})
	// hidden / definition fields are never restricted
	out = append(out, map[string]model.DVal{"_h": one}, map[string]model.DVal{"#d": one, "a": one}, map[string]model.DVal{"_h": one, "b": one})
	return out
}

func subsets(n, maxK int, fn func(ix []int) bool) {
	var rec func(start int, cur []int) bool
	rec = func(start int, cur []int) bool {
		if !fn(cur) {
			return false
		}
		if len(cur) == maxK {
			return true
		}
		for i := start; i < n; i++ {
			if !rec(i+1, append(cur, i)) {
				return false
			}
		}
		return true
	}
	rec(0, nil)
}

func run(r *core.Run) {
	ms := members(false)
	do := func(specs []schemaSpec, full bool) bool {
		if !r.Mine() {
			return !r.Expired()
		}
		c := kase{Schemas: specs, Full: full}
		r.Guard(c, func() { check(r, c) })
		return true
	}
	r.Section("single schema, <=3 members x 6 reaches")
	subsets(len(ms), 3, func(ix []int) bool {
		for _, rc := range reaches {
			if !do([]schemaSpec{{append([]int{}, ix...), rc}}, false) {
				return false
			}
		}
		return true
	})
	r.Section("single schema, <=2 members, reached through a let alias of a definition or of a definition's field")
	subsets(len(ms), 2, func(ix []int) bool {
		for _, rc := range []string{"deflet", "defletfield"} {
			if !do([]schemaSpec{{append([]int{}, ix...), rc}}, false) {
				return false
			}
		}
		return true
	})
	var small []schemaSpec
	subsets(len(ms), 1, func(ix []int) bool {
		for _, rc := range reaches {
			small = append(small, schemaSpec{append([]int{}, ix...), rc})
		}
		return true
	})
	r.Section("conjunction of 2 schemas with <=1 member each")
	for _, a := range small {
		for _, b := range small {
			if !do([]schemaSpec{a, b}, false) {
				break
			}
		}
	}
	var mid []schemaSpec
	subsets(len(ms), 2, func(ix []int) bool {
		if len(ix) == 2 {
			for _, rc := range []string{"close", "def"} {
				mid = append(mid, schemaSpec{append([]int{}, ix...), rc})
			}
		}
		return true
	})
	r.Section("conjunction: (2-member closed/def schema) & (<=1 member schema)")
	for _, a := range mid {
		for _, b := range small {
			if !do([]schemaSpec{a, b}, false) {
				break
			}
		}
	}
	if r.Thorough() {
		msf := members(true)
		r.Section("full alphabet: single schema, <=3 members x 6 reaches")
		subsets(len(msf), 3, func(ix []int) bool {
			for _, rc := range reaches {
				if !do([]schemaSpec{{append([]int{}, ix...), rc}}, true) {
					return false
				}
			}
			return true
		})
		r.Section("conjunction of 3 schemas with <=1 member each (closed/def/open)")
		var s3 []schemaSpec
		subsets(len(ms), 1, func(ix []int) bool {
			for _, rc := range []string{"open", "close", "def"} {
				s3 = append(s3, schemaSpec{append([]int{}, ix...), rc})
			}
			return true
		})
		for _, a := range s3 {
			for _, b := range s3 {
				for _, c := range s3 {
					if !do([]schemaSpec{a, b, c}, false) {
						break
					}
				}
			}
		}
		r.Section("conjunction: (2-member schema, any reach) & (2-member closed/def schema)")
		var mid4 []schemaSpec
		subsets(len(ms), 2, func(ix []int) bool {
			if len(ix) == 2 {
				for _, rc := range reaches {
					mid4 = append(mid4, schemaSpec{append([]int{}, ix...), rc})
				}
			}
			return true
		})
		for _, a := range mid4 {
			for _, b := range mid {
				if !do([]schemaSpec{a, b}, false) {
					break
				}
			}
		}
	}
}

func replay(r *core.Run, raw json.RawMessage) {
	var c kase
	if err := json.Unmarshal(raw, &c); err != nil {
		r.EngineError(err.Error())
		return
	}
	check(r, c)
}

func check(r *core.Run, c kase) {
	ms := members(c.Full)
	var schemas []*model.Schema
	var decls, refs []string
	for i, sp := range c.Schemas {
		s, d, ref := build(sp, ms, i)
		schemas = append(schemas, s)
		decls = append(decls, d)
		refs = append(refs, ref)
	}
	for _, s := range schemas {
		if embedsDef(s) && hasStructMember(s) {
			// The spec's example (`B: {#A, b: c: int}` ... "nothing closes b")
			// and the implementation (B & {b: d: 3} is rejected, B.b & {d: 3}
			// is accepted) disagree on whether embedding a definition closes
			// the nested structs of the enclosing literal, and the property is
			// silent: fragment removed from the claim.
			r.Unclaimed("struct-valued field next to an embedded definition")
			return
		}
	}
	data := dataSet(c.Full)
	var sb strings.Builder
	sb.WriteString(preamble)
	for _, d := range decls {
		sb.WriteString(d)
	}
	conj := strings.Join(refs, " & ")
	for i, d := range data {
		fmt.Fprintf(&sb, "out%d: %s & %s\n", i, conj, model.DVal{Kind: "struct", Fields: d}.Src())
	}
	prog := sb.String()
	ctx := cuecontext.New()
	v := ctx.CompileString(prog)
	if err := v.LookupPath(cue.ParsePath("#E0")).Err(); err != nil {
		r.EngineError("preamble does not compile: " + err.Error())
		return
	}
	nAcc := 0
	for i, d := range data {
		out := v.LookupPath(cue.ParsePath(fmt.Sprintf("out%d", i)))
		ierr := out.Validate(cue.Final())
		got := ierr == nil
		want, why := model.Accepts(schemas, d)
		r.Trans(1)
		if got != want {
			c2 := c
			c2.Program = strings.Join(decls, "") + fmt.Sprintf("out: %s & %s", conj, model.DVal{Kind: "struct", Fields: d}.Src())
			r.Violation(fmt.Sprintf("closedness/constraints: impl=%v model=%v: %s & %s", got, want, strings.Join(declsOrRefs(decls, refs), " & "), model.DVal{Kind: "struct", Fields: d}.Src()), c2,
				fmt.Sprintf("%s\nimplementation: %v\nmodel: accepts=%v %s", c2.Program, ierr, want, why))
			return
		}
		if want {
			nAcc++
			r.Outcome("accept")
			// the result's regular fields = data fields + regular schema fields
			if msg := compareFields(out, schemas, d); msg != "" {
				r.Violation("result field set differs: "+conj, c, msg)
				return
			}
		} else {
			switch {
			case strings.Contains(why, "not allowed"):
				r.Outcome("reject-closed")
			case strings.Contains(why, "required"):
				r.Outcome("reject-required")
			default:
				r.Outcome("reject-constraint")
			}
		}
	}
	if nAcc > 0 && nAcc < len(data) {
		r.Nontrivial()
		r.Sample(map[string]any{"schemas": declsOrRefs(decls, refs), "data_accepted": nAcc, "data_total": len(data)})
	}
	r.State(conj + strings.Join(decls, ""))
}

func embedsDef(s *model.Schema) bool {
	for _, e := range s.Embeds {
		if e.Def || embedsDef(e) {
			return true
		}
	}
	return false
}

func hasStructMember(s *model.Schema) bool {
	for _, f := range s.Fields {
		if f.Val.Kind == "struct" {
			return true
		}
	}
	for _, p := range s.Pats {
		if p.Val.Kind == "struct" {
			return true
		}
	}
	return false
}

func declsOrRefs(decls, refs []string) []string {
	var out []string
	for i := range refs {
		if decls[i] != "" {
			out = append(out, strings.TrimSpace(decls[i])+" -> "+refs[i])
		} else {
			out = append(out, refs[i])
		}
	}
	return out
}

func regularLabels(s *model.Schema, into map[string]bool) {
	for _, f := range s.Fields {
		if f.Marker == "" {
			into[f.Label] = true
		}
	}
	for _, e := range s.Embeds {
		regularLabels(e, into)
	}
}

func compareFields(out cue.Value, schemas []*model.Schema, d map[string]model.DVal) string {
	want := map[string]bool{}
	for k := range d {
		want[k] = true
	}
	for _, s := range schemas {
		regularLabels(s, want)
	}
	got := map[string]bool{}
	it, err := out.Fields(cue.Hidden(true), cue.Definitions(true))
	if err != nil {
		return "cannot iterate result: " + err.Error()
	}
	for it.Next() {
		got[it.Selector().String()] = true
	}
	var w, g []string
	for k := range want {
		w = append(w, k)
	}
	for k := range got {
		g = append(g, k)
	}
	sort.Strings(w)
	sort.Strings(g)
	if strings.Join(w, ",") != strings.Join(g, ",") {
		return fmt.Sprintf("regular fields: implementation %v, model %v", g, w)
	}
	return ""
}
