package core

import (
	"bufio"
	"bytes"
	"encoding/json"
	"flag"
	"fmt"
	"os"
	"os/exec"
	"path/filepath"
	"regexp"
	"runtime"
	"runtime/debug"
	"runtime/pprof"
	"sort"
	"strconv"
	"strings"
	"sync"
	"time"
)

const (
	verifDir = "/verif"
)

// Main is the entry point of every harness binary:
//
//	verifh run <ID> [--tier quick|thorough]
//	verifh worker <ID> --tier T --shard k/n --out file [--trace file] [--only seq]
//	verifh replay <file>
//
// SelfArgsPrefix is prepended to the arguments when the binary re-executes
// itself (workers, helper processes). Test binaries (C18 runs inside
// testing/synctest) set it to route through their driver test.
var SelfArgsPrefix []string

func Main() { os.Exit(MainArgs(os.Args[1:])) }

// MainArgs dispatches run|worker|replay|child|list.
func MainArgs(args []string) int {
	if len(args) < 1 {
		fmt.Fprintln(os.Stderr, "usage: run|worker|replay|list")
		return 2
	}
	os.Args = append([]string{os.Args[0]}, args...)
	switch os.Args[1] {
	case "list":
		for _, id := range IDs() {
			fmt.Println(id)
		}
	case "run":
		return runParent(os.Args[2:])
	case "worker":
		return runWorker(os.Args[2:])
	case "replay":
		return runReplay(os.Args[2:])
	case "child":
		return ChildMain(os.Args[2])
	default:
		fmt.Fprintln(os.Stderr, "unknown command", os.Args[1])
		return 2
	}
	return 0
}

func seedFromEnv() int64 {
	s, _ := strconv.ParseInt(os.Getenv("VERIF_SEED"), 10, 64)
	return s
}

func budget(p *Prop, tier string) time.Duration {
	b := p.BudgetQuick
	if tier == "thorough" {
		b = p.BudgetThorough
		if b == 0 {
			b = 1500
		}
	} else if b == 0 {
		b = 240
	}
	if s := os.Getenv("VERIF_BUDGET"); s != "" {
		if n, err := strconv.Atoi(s); err == nil {
			b = n
		}
	}
	return time.Duration(b) * time.Second
}

func runWorker(args []string) int {
	fs := flag.NewFlagSet("worker", flag.ExitOnError)
	tier := fs.String("tier", "quick", "")
	shard := fs.String("shard", "0/1", "")
	out := fs.String("out", "", "")
	trace := fs.String("trace", "", "")
	only := fs.Int64("only", 0, "")
	id := args[0]
	fs.Parse(args[1:])
	p := Lookup(id)
	if p == nil {
		fmt.Fprintln(os.Stderr, "unknown property", id)
		return 2
	}
	var k, n int
	fmt.Sscanf(*shard, "%d/%d", &k, &n)
	ms := p.MaxStackMB
	if ms == 0 {
		ms = 512
	}
	debug.SetMaxStack(ms << 20)
	r := &Run{Prop: p, Tier: *tier, Seed: seedFromEnv(), ShardK: k, ShardN: n,
		tracePath: *trace, outPath: *out, maxViol: 200, Only: *only}
	if *only == 0 {
		r.deadline = time.Now().Add(budget(p, *tier))
	}
	r.knownRE = compileKnown(loadKnown(id))
	stall := p.StallSeconds
	if stall == 0 {
		stall = 120
	}
	go r.watchdog(time.Duration(stall) * time.Second)
	if pf := os.Getenv("VERIF_CPUPROFILE"); pf != "" && k == 0 {
		if f, err := os.Create(pf); err == nil {
			pprof.StartCPUProfile(f)
			defer pprof.StopCPUProfile()
		}
	}
	p.Run(r)
	r.mu.Lock()
	r.flush()
	return 0
}

type knownFinding struct {
	Property string `json:"property"`
	Status   string `json:"status"` // known | fixed
	Key      string `json:"key"`    // regexp matched against the violation key
	What     string `json:"what"`
	Commit   string `json:"commit,omitempty"`
}

func loadKnown(id string) []knownFinding {
	var out []knownFinding
	f, err := os.Open(filepath.Join(verifDir, "known_findings.jsonl"))
	if err != nil {
		return nil
	}
	defer f.Close()
	sc := bufio.NewScanner(f)
	sc.Buffer(make([]byte, 1<<20), 1<<20)
	for sc.Scan() {
		line := strings.TrimSpace(sc.Text())
		if line == "" || strings.HasPrefix(line, "#") {
			continue
		}
		var k knownFinding
		if json.Unmarshal([]byte(line), &k) == nil && k.Property == id {
			out = append(out, k)
		}
	}
	return out
}

// compileKnown returns one regexp per known-findings entry (nil for entries
// that do not suppress anything, i.e. status "fixed").
func compileKnown(known []knownFinding) []*regexp.Regexp {
	var res []*regexp.Regexp
	for _, k := range known {
		if k.Status != "known" {
			res = append(res, nil)
			continue
		}
		re, err := regexp.Compile(k.Key)
		if err != nil {
			re = regexp.MustCompile(regexp.QuoteMeta(k.Key))
		}
		res = append(res, re)
	}
	return res
}

func merge(dst *Result, src *Result) {
	for i, c := range src.KnownHits {
		if dst.KnownHits == nil {
			dst.KnownHits = map[int]int64{}
		}
		dst.KnownHits[i] += c
	}
	dst.Evaluations += src.Evaluations
	dst.Nontrivial += src.Nontrivial
	dst.States += src.States
	dst.Transitions += src.Transitions
	dst.Traces += src.Traces
	dst.NViolations += src.NViolations
	dst.Cut = dst.Cut || src.Cut
	if dst.EngineError == "" {
		dst.EngineError = src.EngineError
	}
	addMap := func(d *map[string]int64, s map[string]int64) {
		if len(s) == 0 {
			return
		}
		if *d == nil {
			*d = map[string]int64{}
		}
		for k, v := range s {
			(*d)[k] += v
		}
	}
	addMap(&dst.Counters, src.Counters)
	addMap(&dst.Outcomes, src.Outcomes)
	addMap(&dst.Unclaimed, src.Unclaimed)
	dst.Samples = append(dst.Samples, src.Samples...)
	dst.Violations = append(dst.Violations, src.Violations...)
	for i, s := range src.Sections {
		if i < len(dst.Sections) && dst.Sections[i].Name == s.Name {
			dst.Sections[i].Complete = dst.Sections[i].Complete && s.Complete
			if s.Cases > dst.Sections[i].Cases {
				dst.Sections[i].Cases = s.Cases
			}
		} else if i >= len(dst.Sections) {
			dst.Sections = append(dst.Sections, s)
		}
	}
}

func runParent(args []string) int {
	fs := flag.NewFlagSet("run", flag.ExitOnError)
	tier := fs.String("tier", "quick", "")
	workers := fs.Int("workers", 0, "")
	id := args[0]
	fs.Parse(args[1:])
	if t := os.Getenv("VERIF_TIER"); t != "" && !flagSet(fs, "tier") {
		*tier = t
	}
	p := Lookup(id)
	if p == nil {
		fmt.Fprintln(os.Stderr, "ENGINE-ERROR unknown property", id)
		return 2
	}
	start := time.Now()
	n := *workers
	if n == 0 {
		n = p.Workers
	}
	if n == 0 {
		n = runtime.NumCPU()
	}
	self, _ := os.Executable()
	work := filepath.Join(verifDir, ".work", "tmp", fmt.Sprintf("%s-%d", id, os.Getpid()))
	os.MkdirAll(work, 0o755)
	defer os.RemoveAll(work)

	results := make([]*Result, n)
	stderrs := make([]string, n)
	died := make([]bool, n)
	var wg sync.WaitGroup
	hard := budget(p, *tier)*2 + 10*time.Minute
	for k := 0; k < n; k++ {
		wg.Add(1)
		go func(k int) {
			defer wg.Done()
			out := filepath.Join(work, fmt.Sprintf("shard%d.json", k))
			res, se, ok := spawnWorker(self, id, *tier, k, n, out, "", 0, hard)
			results[k], stderrs[k], died[k] = res, se, !ok
		}(k)
	}
	wg.Wait()

	// optional second pass with another build of the same harness (e.g. the
	// -race build for C19): same sharding, VERIF_PASS=extra tells Prop.Run
	// to run only the parts meant for that build.
	if extra := os.Getenv("VERIF_EXTRA_BIN"); extra != "" {
		if _, err := os.Stat(extra); err == nil {
			os.Setenv("VERIF_PASS", "extra")
			extraRes := make([]*Result, n)
			var wg2 sync.WaitGroup
			for k := 0; k < n; k++ {
				wg2.Add(1)
				go func(k int) {
					defer wg2.Done()
					out := filepath.Join(work, fmt.Sprintf("extra%d.json", k))
					res, se, ok := spawnWorker(extra, id, *tier, k, n, out, "", 0, hard)
					if !ok && res == nil {
						res = &Result{EngineError: "extra-pass worker died: " + tail(se, 600)}
					}
					extraRes[k] = res
				}(k)
			}
			wg2.Wait()
			os.Unsetenv("VERIF_PASS")
			for k := 0; k < n; k++ {
				if results[k] != nil && extraRes[k] != nil {
					// sections of the extra pass are appended
					results[k].Sections = append(results[k].Sections, extraRes[k].Sections...)
					extraRes[k].Sections = nil
					merge(results[k], extraRes[k])
				}
			}
		}
	}

	total := &Result{}
	engineErr := ""
	for k := 0; k < n; k++ {
		if results[k] != nil {
			if k == 0 {
				total.Sections = append(total.Sections, results[k].Sections...)
			}
			merge(total, results[k])
		}
		if died[k] {
			// A worker died without reporting (fatal error, OOM, kill). Re-run
			// the shard in trace mode to find the case, then confirm it alone.
			v, eerr := attributeDeath(self, p, id, *tier, k, n, work, stderrs[k], hard)
			if v != nil {
				total.Violations = append(total.Violations, *v)
				total.NViolations++
			} else if engineErr == "" {
				engineErr = eerr
			}
			total.Cut = true
		}
	}
	if total.EngineError != "" && engineErr == "" {
		engineErr = total.EngineError
	}

	// known findings: workers classify (and count) them; violations found by
	// the parent itself (worker deaths) are classified here.
	known := loadKnown(id)
	res := compileKnown(known)
	knownHit := map[int]int64{}
	for i, c := range total.KnownHits {
		knownHit[i] += c
	}
	var fresh []Violation
	for _, v := range total.Violations {
		matched := false
		for i := range known {
			if res[i] != nil && res[i].MatchString(v.Key) {
				knownHit[i]++
				matched = true
				break
			}
		}
		if !matched {
			fresh = append(fresh, v)
		}
	}
	// violations beyond the per-worker recording cap are all fresh ones
	overflow := total.NViolations - int64(len(total.Violations))
	if overflow < 0 {
		overflow = 0
	}

	exhaustive := !total.Cut
	bound := ""
	for _, s := range total.Sections {
		if s.Complete {
			bound = s.Name
		}
	}

	// vacuity guard (only meaningful for complete runs)
	if exhaustive && engineErr == "" {
		for _, o := range p.RequireOutcomes {
			if total.Outcomes[o] == 0 {
				engineErr = "vacuous: required outcome never observed: " + o
			}
		}
		if p.MinOutcomes > 0 && len(total.Outcomes) < p.MinOutcomes {
			engineErr = fmt.Sprintf("vacuous: only %d distinct outcomes", len(total.Outcomes))
		}
	}

	// evidence
	var samples []any
	for i, s := range total.Samples {
		if i >= 8 {
			break
		}
		var v any
		json.Unmarshal(s, &v)
		samples = append(samples, v)
	}
	if len(samples) == 0 {
		samples = append(samples, "no case sampled")
	}
	var knownHits []string
	for i, c := range knownHit {
		knownHits = append(knownHits, fmt.Sprintf("%s (%d cases)", known[i].What, c))
	}
	sort.Strings(knownHits)
	outcomes := map[string]int64{}
	if len(total.Outcomes) <= 64 {
		outcomes = total.Outcomes
	} else {
		// keep the evidence file small
		type kv struct {
			k string
			v int64
		}
		var l []kv
		for k, v := range total.Outcomes {
			l = append(l, kv{k, v})
		}
		sort.Slice(l, func(i, j int) bool { return l[i].v > l[j].v || l[i].v == l[j].v && l[i].k < l[j].k })
		for _, e := range l[:64] {
			outcomes[e.k] = e.v
		}
	}
	states := total.States
	if states == 0 {
		states = total.Evaluations
	}
	trans := total.Transitions
	if trans == 0 {
		trans = total.Evaluations
	}
	traces := total.Traces
	if traces == 0 {
		traces = total.Evaluations
	}
	cov := map[string]any{
		"states":                        states,
		"transitions":                   trans,
		"traces_validated_against_impl": traces,
		"evaluations":                   total.Evaluations,
		"distinct_nontrivial":           total.Nontrivial,
		"rule":                          p.Rule,
		"samples":                       samples,
		"exhaustive":                    exhaustive,
		"bound_completed":               bound,
		"sections":                      total.Sections,
		"outcomes_distinct":             len(total.Outcomes),
		"outcomes":                      outcomes,
		"known_findings_hit":            knownHits,
		"unclaimed":                     total.Unclaimed,
		"workers":                       n,
	}
	for k, v := range total.Counters {
		cov[k] = v
	}
	ev := map[string]any{
		"property_id": id,
		"tier":        *tier,
		"seed":        seedFromEnv(),
		"level":       p.Level,
		"coverage":    cov,
		"assumptions": p.Assumptions,
		"wall_s":      time.Since(start).Seconds(),
		"violations":  int64(len(fresh)) + overflow,
	}
	if engineErr != "" {
		ev["engine_error"] = engineErr
	}
	eb, _ := json.MarshalIndent(ev, "", " ")
	os.MkdirAll(filepath.Join(verifDir, "evidence"), 0o755)
	os.WriteFile(filepath.Join(verifDir, "evidence", id+".json"), append(eb, '\n'), 0o644)

	fmt.Printf("%s tier=%s workers=%d evaluations=%d states=%d transitions=%d nontrivial=%d outcomes=%d exhaustive=%v bound=%q wall=%.1fs\n",
		id, *tier, n, total.Evaluations, states, trans, total.Nontrivial, len(total.Outcomes), exhaustive, bound, time.Since(start).Seconds())
	var okeys []string
	for k := range total.Outcomes {
		okeys = append(okeys, k)
	}
	sort.Strings(okeys)
	if len(okeys) <= 40 {
		for _, k := range okeys {
			fmt.Printf("  outcome %-40s %d\n", k, total.Outcomes[k])
		}
	}
	var ckeys []string
	for k := range total.Counters {
		ckeys = append(ckeys, k)
	}
	sort.Strings(ckeys)
	for _, k := range ckeys {
		fmt.Printf("  counter %-40s %d\n", k, total.Counters[k])
	}
	for k, v := range total.Unclaimed {
		fmt.Printf("  unclaimed %-38s %d\n", k, v)
	}
	for i, c := range knownHit {
		fmt.Printf("KNOWN-FINDING: property=%s %s (%d cases this run)\n", id, known[i].What, c)
	}
	code := 0
	if len(fresh) > 0 {
		os.MkdirAll(filepath.Join(verifDir, "replays"), 0o755)
		seen := map[string]bool{}
		for _, v := range fresh {
			hk := hashKey(v.Key + string(v.Payload))
			if seen[hk] {
				continue
			}
			seen[hk] = true
			path := filepath.Join(verifDir, "replays", fmt.Sprintf("%s-%s.json", id, hk))
			rb, _ := json.MarshalIndent(map[string]any{
				"property": id, "key": v.Key, "detail": v.Detail, "payload": v.Payload,
				"tier": *tier, "reproduce": fmt.Sprintf("./check %s --replay %s", id, path),
			}, "", " ")
			os.WriteFile(path, rb, 0o644)
			if len(seen) <= 10 {
				fmt.Printf("VIOLATION property=%s replay=%s\n", id, path)
				d := v.Detail
				if len(d) > 600 {
					d = d[:600] + "…"
				}
				fmt.Printf("  key: %s\n  %s\n", v.Key, strings.ReplaceAll(d, "\n", "\n  "))
			}
		}
		fmt.Printf("%s: %d violations (%d distinct recorded)\n", id, int64(len(fresh))+overflow, len(seen))
		code = 1
	}
	if engineErr != "" {
		fmt.Printf("ENGINE-ERROR %s: %s\n", id, engineErr)
		if code == 0 {
			code = 2
		}
	}
	return code
}

func flagSet(fs *flag.FlagSet, name string) bool {
	found := false
	fs.Visit(func(f *flag.Flag) {
		if f.Name == name {
			found = true
		}
	})
	return found
}

func spawnWorker(self, id, tier string, k, n int, out, trace string, only int64, hard time.Duration) (*Result, string, bool) {
	args := []string{"worker", id, "--tier", tier, "--shard", fmt.Sprintf("%d/%d", k, n), "--out", out}
	if trace != "" {
		args = append(args, "--trace", trace)
	}
	if only > 0 {
		args = append(args, "--only", strconv.FormatInt(only, 10))
	}
	os.Remove(out)
	cmd := exec.Command(self, append(append([]string{}, SelfArgsPrefix...), args...)...)
	var se bytes.Buffer
	cmd.Stderr = &limitedWriter{w: &se, n: 1 << 20}
	cmd.Stdout = os.Stderr
	cmd.Env = append(os.Environ(), "GOMAXPROCS=2", "GOGC=300")
	if err := cmd.Start(); err != nil {
		return nil, err.Error(), false
	}
	done := make(chan error, 1)
	go func() { done <- cmd.Wait() }()
	var err error
	select {
	case err = <-done:
	case <-time.After(hard):
		cmd.Process.Kill()
		err = fmt.Errorf("killed after hard limit %s: %v", hard, <-done)
		se.WriteString("\n" + err.Error())
	}
	b, rerr := os.ReadFile(out)
	if rerr != nil {
		return nil, se.String() + fmt.Sprintf("\nexit: %v", err), false
	}
	var res Result
	if json.Unmarshal(b, &res) != nil {
		return nil, se.String(), false
	}
	// exit 3 = watchdog reported a timeout itself; result file is valid.
	// Any other failure exit: the file holds the partial result flushed at
	// the last violation; the worker still counts as dead.
	if ee, ok := err.(*exec.ExitError); ok && ee.ExitCode() != 3 {
		res.Cut = true
		return &res, se.String() + fmt.Sprintf("\nexit: %v", err), false
	}
	return &res, se.String(), true
}

type bytesBuffer = bytes.Buffer

type limitedWriter struct {
	w *bytes.Buffer
	n int
}

func (l *limitedWriter) Write(p []byte) (int, error) {
	if l.w.Len() < l.n {
		l.w.Write(p)
	}
	return len(p), nil
}

// attributeDeath finds the case that kills a worker and confirms it.
func attributeDeath(self string, p *Prop, id, tier string, k, n int, work, stderr string, hard time.Duration) (*Violation, string) {
	trace := filepath.Join(work, fmt.Sprintf("trace%d.json", k))
	out := filepath.Join(work, fmt.Sprintf("shard%d.trace.json", k))
	_, se2, ok := spawnWorker(self, id, tier, k, n, out, trace, 0, hard)
	if ok {
		if v := crashViolation(stderr, "not reproduced when the shard was re-run"); v != nil {
			return v, ""
		}
		return nil, fmt.Sprintf("worker %d died once but not when re-run (flaky): %s", k, tail(stderr, 800))
	}
	b, err := os.ReadFile(trace)
	if err != nil {
		return nil, fmt.Sprintf("worker %d died before its first case: %s", k, tail(se2, 800))
	}
	var t struct {
		Seq     int64           `json:"seq"`
		Payload json.RawMessage `json:"payload"`
	}
	json.Unmarshal(b, &t)
	// confirm 3x alone
	deaths := 0
	last := ""
	for i := 0; i < 3; i++ {
		_, se3, ok := spawnWorker(self, id, tier, 0, 1, out, "", t.Seq, hard)
		if !ok {
			deaths++
			last = se3
		}
	}
	if deaths < 3 {
		if v := crashViolation(se2, fmt.Sprintf("case seq=%d alone died %d/3 times", t.Seq, deaths)); v != nil {
			v.Payload = t.Payload
			return v, ""
		}
		return nil, fmt.Sprintf("worker %d died at case seq=%d but the case alone died only %d/3 times: %s", k, t.Seq, deaths, tail(se2, 800))
	}
	first := firstFatalLine(last)
	// the key names the input, so that a known finding for one crashing input
	// does not cover another one
	in := strings.Join(strings.Fields(string(t.Payload)), " ")
	if len(in) > 200 {
		in = in[:200]
	}
	return &Violation{Key: "crash: " + first + " [case " + in + "]", Payload: t.Payload,
		Detail: "worker process died (not a recoverable panic); confirmed 3/3 alone\n" + head(last, 3000)}, ""
}

// crashViolation turns the last words of a dead worker into a violation when
// they show a Go panic or fatal error raised by the code under test (a
// schedule-dependent crash is a defect even if it does not reproduce on
// demand); nil if the death looks environmental (kill, out of memory).
func crashViolation(stderr, note string) *Violation {
	first := firstFatalLine(stderr)
	if !(strings.HasPrefix(first, "panic:") || strings.HasPrefix(first, "fatal error:")) || strings.Contains(first, "out of memory") {
		return nil
	}
	return &Violation{Key: "crash (" + note + "): " + first, Payload: json.RawMessage(`null`),
		Detail: "worker process died with a Go panic / fatal error; " + note + "\n" + head(stderr, 3000)}
}

func firstFatalLine(s string) string {
	for _, l := range strings.Split(s, "\n") {
		l = strings.TrimSpace(l)
		if strings.HasPrefix(l, "fatal error:") || strings.HasPrefix(l, "panic:") || strings.HasPrefix(l, "runtime:") || strings.Contains(l, "killed") {
			if len(l) > 120 {
				l = l[:120]
			}
			return l
		}
	}
	return "worker died"
}

func tail(s string, n int) string {
	if len(s) > n {
		return "…" + s[len(s)-n:]
	}
	return s
}
func head(s string, n int) string {
	if len(s) > n {
		return s[:n] + "…"
	}
	return s
}

func runReplay(args []string) int {
	if len(args) < 1 {
		fmt.Fprintln(os.Stderr, "usage: replay <file>")
		return 2
	}
	b, err := os.ReadFile(args[0])
	if err != nil {
		fmt.Fprintln(os.Stderr, "ENGINE-ERROR", err)
		return 2
	}
	var rf struct {
		Property string          `json:"property"`
		Key      string          `json:"key"`
		Payload  json.RawMessage `json:"payload"`
		Tier     string          `json:"tier"`
	}
	if err := json.Unmarshal(b, &rf); err != nil {
		fmt.Fprintln(os.Stderr, "ENGINE-ERROR", err)
		return 2
	}
	p := Lookup(rf.Property)
	if p == nil || p.Replay == nil {
		fmt.Fprintln(os.Stderr, "ENGINE-ERROR no replay for", rf.Property)
		return 2
	}
	var keys [2][]string
	for i := 0; i < 2; i++ {
		r := &Run{Prop: p, Tier: rf.Tier, ShardN: 1, Replaying: true, maxViol: 100}
		r.Guard(rf.Payload, func() { p.Replay(r, rf.Payload) })
		for _, v := range r.res.Violations {
			keys[i] = append(keys[i], v.Key)
			if i == 0 {
				fmt.Printf("  key: %s\n  %s\n", v.Key, strings.ReplaceAll(head(v.Detail, 2000), "\n", "\n  "))
			}
		}
	}
	if strings.Join(keys[0], "\x00") != strings.Join(keys[1], "\x00") {
		fmt.Printf("ENGINE-ERROR nondeterministic replay: %q vs %q\n", keys[0], keys[1])
		return 2
	}
	if len(keys[0]) > 0 {
		fmt.Printf("VIOLATION property=%s replay=%s\n", rf.Property, args[0])
		return 1
	}
	fmt.Printf("%s replay: no violation\n", rf.Property)
	return 0
}
