package c17

import (
	"fmt"
	"path"
	"sort"
	"strings"

	"cuelang.org/go/internal/mod/semver"
)

// The oracle is a checker of the tidied file, not a second resolver: given the
// universe, the module file the main module started from and the tidied deps
// T, it decides whether T is sufficient, has no unused entry and is consistent
// with minimal version selection over the pruned requirement graph
// (main -> T, each entry of T -> the requirements in its own module file).

type outcome struct {
	Deps map[string]Dep // keyed by module path with major version
	Err  string
	// Lost: a field of the module file other than deps that the tidied file
	// no longer has (not part of String: reported on its own)
	Lost string
}

func (o outcome) String() string {
	if o.Err != "" {
		return "error: " + o.Err
	}
	var l []string
	for _, d := range o.Deps {
		s := d.Path + " " + d.V
		if d.Default {
			s += " default"
		}
		l = append(l, s)
	}
	sort.Strings(l)
	return "deps{" + strings.Join(l, "; ") + "}"
}

func isStd(p string) bool {
	first, _, _ := strings.Cut(p, "/")
	return !strings.Contains(first, ".")
}

// splitImport splits "x.test/a/p@v1:q" into path, major version.
func splitImport(imp string) (p, major string) {
	if i := strings.LastIndexByte(imp, ':'); i >= 0 && !strings.Contains(imp[i:], "/") {
		imp = imp[:i]
	}
	if i := strings.IndexByte(imp, '@'); i >= 0 {
		return imp[:i], imp[i+1:]
	}
	return imp, ""
}

type defaults struct {
	explicit map[string]string
	majors   map[string]map[string]bool
}

func newDefaults(deps []Dep) *defaults {
	d := &defaults{explicit: map[string]string{}, majors: map[string]map[string]bool{}}
	for _, dep := range deps {
		b := basePath(dep.Path)
		if dep.Default {
			d.explicit[b] = majorOf(dep.Path)
		}
		if d.majors[b] == nil {
			d.majors[b] = map[string]bool{}
		}
		d.majors[b][majorOf(dep.Path)] = true
	}
	return d
}

func (d *defaults) get(base string) string {
	if v, ok := d.explicit[base]; ok {
		return v
	}
	if len(d.majors[base]) == 1 {
		for m := range d.majors[base] {
			return m
		}
	}
	return ""
}

// check returns a list of defects of T for universe u (empty = T is a
// correct tidy result) and labels describing what the case exercised.
func check(u *Universe, T map[string]Dep) (defects []string, labels []string) {
	var tdeps []Dep
	for _, d := range T {
		tdeps = append(tdeps, d)
	}
	sort.Slice(tdeps, func(i, j int) bool { return tdeps[i].Path < tdeps[j].Path })
	mainDef := newDefaults(tdeps)
	mainBase := basePath(u.Main.Path)
	mainDef.explicit[mainBase] = majorOf(u.Main.Path)

	// pruned requirement graph: selected version per path
	selected := map[string]string{}
	bump := func(p, v string) {
		if cur, ok := selected[p]; !ok || semver.Compare(v, cur) > 0 {
			selected[p] = v
		}
	}
	for _, d := range tdeps {
		bump(d.Path, d.V)
		m := u.lookup(d.Path, d.V)
		if m == nil {
			defects = append(defects, fmt.Sprintf("entry %s %s names a module version that is not in the registry", d.Path, d.V))
			continue
		}
		for _, r := range m.Deps {
			bump(r.Path, r.V)
		}
	}
	upgraded := false
	for _, d := range tdeps {
		if selected[d.Path] != d.V {
			defects = append(defects, fmt.Sprintf("not MVS-consistent: %s listed at %s but minimal version selection over the listed requirements selects %s", d.Path, d.V, selected[d.Path]))
		}
	}

	// resolve an import as seen from module ctx (nil = main module)
	used := map[string]bool{}
	type pkgKey struct{ mod, dir string }
	seen := map[pkgKey]bool{}
	type item struct {
		imp string
		ctx *Mod
	}
	var queue []item
	for _, p := range u.Main.Pkgs {
		for _, f := range p.Files {
			for _, imp := range f {
				queue = append(queue, item{imp, nil})
			}
		}
	}
	candidates := func(ipath, major string, def func(string) string) (found []pkgKey, mods []*Mod) {
		for prefix := ipath; prefix != "." && prefix != "/"; prefix = path.Dir(prefix) {
			mj := major
			if mj == "" {
				mj = def(prefix)
				if mj == "" {
					continue
				}
			}
			mp := prefix + "@" + mj
			dir := strings.TrimPrefix(strings.TrimPrefix(ipath, prefix), "/")
			if mp == u.Main.Path {
				if u.Main.pkg(dir) != nil {
					found = append(found, pkgKey{"main", dir})
					mods = append(mods, &u.Main)
				}
				continue
			}
			d, ok := T[mp]
			if !ok {
				continue
			}
			m := u.lookup(mp, d.V)
			if m == nil || m.pkg(dir) == nil {
				continue
			}
			found = append(found, pkgKey{mp, dir})
			mods = append(mods, m)
		}
		return
	}
	for len(queue) > 0 {
		it := queue[0]
		queue = queue[1:]
		if isStd(it.imp) {
			continue
		}
		ipath, major := splitImport(it.imp)
		var found []pkgKey
		var mods []*Mod
		if it.ctx != nil && major == "" {
			// an external package: unversioned imports use the importing
			// module's own default major versions. The module they name is
			// looked up in the requirement graph (the importing module is
			// listed, so its requirements are part of the pruned graph); when
			// it provides the package it is the provider and must be listed.
			ctxDef := newDefaults(it.ctx.Deps)
			var viaGraph []pkgKey
			var viaMods []*Mod
			for prefix := ipath; prefix != "." && prefix != "/"; prefix = path.Dir(prefix) {
				mj := ctxDef.get(prefix)
				if mj == "" {
					continue
				}
				mp := prefix + "@" + mj
				v, ok := selected[mp]
				if !ok {
					continue
				}
				dir := strings.TrimPrefix(strings.TrimPrefix(ipath, prefix), "/")
				if m := u.lookup(mp, v); m != nil && m.pkg(dir) != nil {
					viaGraph = append(viaGraph, pkgKey{mp, dir})
					viaMods = append(viaMods, m)
				}
			}
			if len(viaGraph) == 1 {
				labels = append(labels, "dep-default-major")
				k := viaGraph[0]
				if d, ok := T[k.mod]; !ok || d.V != selected[k.mod] {
					defects = append(defects, fmt.Sprintf("insufficient: import %q in %s means %s under that module's own default major version, which is not listed", it.imp, ctxName(it.ctx), k.mod))
					continue
				}
				found, mods = viaGraph, viaMods
			}
		}
		if found == nil {
			found, mods = candidates(ipath, major, mainDef.get)
		}
		switch len(found) {
		case 0:
			defects = append(defects, fmt.Sprintf("insufficient: import %q (from %s) is provided by no listed module", it.imp, ctxName(it.ctx)))
			continue
		case 1:
		default:
			defects = append(defects, fmt.Sprintf("ambiguous: import %q is provided by %v", it.imp, found))
			continue
		}
		k, m := found[0], mods[0]
		if k.mod != "main" {
			used[k.mod] = true
		}
		if seen[k] {
			continue
		}
		seen[k] = true
		var ctx *Mod
		if k.mod != "main" {
			ctx = m
		}
		for _, f := range m.pkg(k.dir).Files {
			for _, imp := range f {
				queue = append(queue, item{imp, ctx})
			}
		}
	}
	for _, d := range tdeps {
		if !used[d.Path] {
			defects = append(defects, fmt.Sprintf("unused entry: %s %s provides no package imported (transitively) by the main module", d.Path, d.V))
		}
	}

	// version justification
	init := map[string]string{}
	for _, d := range u.Main.Deps {
		init[d.Path] = d.V
	}
	for _, d := range tdeps {
		base, inInit := init[d.Path]
		if !inInit {
			base = latest(u, d.Path)
		} else if semver.Compare(d.V, base) < 0 {
			defects = append(defects, fmt.Sprintf("downgrade: %s was required at %s and is now listed at %s", d.Path, base, d.V))
			continue
		}
		if d.V == base {
			continue
		}
		upgraded = true
		// an upgrade above the base must be demanded by some requirement of
		// a module that is listed now or was listed before
		just := false
		var holders []Dep
		holders = append(holders, tdeps...)
		holders = append(holders, u.Main.Deps...)
		for _, h := range holders {
			// any version of a holder's module may have been looked at while
			// resolving; accept a requirement of any of them
			for i := range u.Reg {
				if u.Reg[i].Path != h.Path {
					continue
				}
				for _, r := range u.Reg[i].Deps {
					if r.Path == d.Path && r.V == d.V {
						just = true
					}
				}
			}
		}
		if !inInit && !just {
			// a module that was added may also be taken at the latest version of
			// an unversioned query (other major version)
			if d.V == latest(u, basePath(d.Path)) {
				just = true
			}
		}
		if !just {
			defects = append(defects, fmt.Sprintf("unjustified version: %s listed at %s; base version %s and no listed module requires %s", d.Path, d.V, base, d.V))
		}
	}
	if upgraded {
		labels = append(labels, "upgrade-through-dependency")
	}
	return defects, labels
}

func ctxName(m *Mod) string {
	if m == nil {
		return "main module"
	}
	return m.Path + " " + m.V
}

// latest returns the latest version of a module path (with or without major
// version), preferring stable versions.
func latest(u *Universe, mpath string) string {
	var stable, any string
	for i := range u.Reg {
		m := &u.Reg[i]
		if m.Path != mpath && basePath(m.Path) != mpath {
			continue
		}
		if semver.Prerelease(m.V) == "" && (stable == "" || semver.Compare(m.V, stable) > 0) {
			stable = m.V
		}
		if any == "" || semver.Compare(m.V, any) > 0 {
			any = m.V
		}
	}
	if stable != "" {
		return stable
	}
	return any
}
