// Package c15: module archives round-trip and can never write outside their
// directory.
//
// E1: (a) every file set of <=n paths over a hostile name alphabet (+ the
// module file): CheckFiles / Create / CheckZip / Unzip / CheckDir agreement and
// exact round trip; (b) every zip of <=n entries with hostile names, modes and
// lying declared sizes built with raw headers: Unzip either fails or writes only
// regular files beneath the target, nothing outside changes; (c) declared sizes
// around each limit through a fake Lstat and forged headers.
package c15

import (
	"archive/zip"
	"bytes"
	"compress/flate"
	"encoding/json"
	"fmt"
	"hash/crc32"
	"io"
	"io/fs"
	"os"
	"path"
	"path/filepath"
	"sort"
	"strings"
	"time"

	"cuelang.org/go/internal/verif/core"
	"cuelang.org/go/internal/verif/gen"
	"cuelang.org/go/mod/module"
	"cuelang.org/go/mod/modzip"
)

func init() {
	core.Register(&core.Prop{
		ID: "C15",
		Rule: "E1 bounded-exhaustive: paths of <=2 segments (thorough 3) over 30 hostile segments (case variants, cue.mod/module.cue spellings, vendor, .hg_archival.txt, .., ., empty, trailing dot, reserved Windows names, ~1, space, Unicode case folding pairs, backslash, colon, star, 200-char name) with leading/trailing/double slash variants; file sets and raw zips of <=2 entries x modes {regular, symlink, dir, device, setuid} x declared/actual size relations; declared sizes {0,1,limit-1,limit,limit+1} for each of the three limits. " +
			"Non-trivial = file sets/zips with at least one rejected or omitted entry, or that were extracted.",
		Assumptions: []string{"extraction happens on the real file system in a per-case scratch directory with sentinel files beside and above the target", "large files are never written: limits are probed through fake FileInfo sizes and forged zip headers"},
		Run:         run, Replay: replay,
		RequireOutcomes: []string{"roundtrip:ok", "create:rejected", "hostile:rejected", "hostile:extracted-safely", "limit:ok"},
		BudgetQuick:     200, BudgetThorough: 1500,
	})
}

var segs = []string{"a", "A", "b", "ab.cue", "cue.mod", "Cue.Mod", "module.cue", "MODULE.CUE", "local-module.cue", "LICENSE", "vendor", "pkg", ".hg_archival.txt", ".git",
	"..", ".", "", "a.", "CON", "con.txt", "a~1", "x y", "é", "É", "K", "k", `a\b`, "a:b", "a*", strings.Repeat("n", 200)}

type entry struct {
	Path     string `json:"path"`
	Mode     string `json:"mode"`     // regular symlink dir device setuid
	Declared int64  `json:"declared"` // -1 = actual
	Content  string `json:"content"`
}

type kase struct {
	Kind    string  `json:"kind"` // files | zip | limit
	Entries []entry `json:"entries"`
	Limit   string  `json:"limit,omitempty"`
	Size    int64   `json:"size,omitempty"`
}

var mv = module.MustNewVersion("example.com/m@v0", "v0.1.0")

const modFile = "module: \"example.com/m@v0\"\nlanguage: version: \"v0.9.0\"\n"

func paths(maxSeg int) []string {
	var out []string
	seen := map[string]bool{}
	add := func(p string) {
		if !seen[p] {
			seen[p] = true
			out = append(out, p)
		}
	}
	for n := 1; n <= maxSeg; n++ {
		gen.Tuples(n, len(segs), func(ix []int) bool {
			parts := make([]string, n)
			long := 0
			for i, j := range ix {
				parts[i] = segs[j]
				if len(segs[j]) > 100 {
					long++
				}
			}
			if long > 1 {
				return true
			}
			add(strings.Join(parts, "/"))
			return true
		})
	}
	// slash variants of a few paths
	for _, p := range []string{"a", "a/b", "cue.mod/module.cue", "ab.cue"} {
		add("/" + p)
		add(p + "/")
		add(strings.Replace(p, "/", "//", 1))
		add("./" + p)
		add("../" + p)
	}
	return out
}

func run(r *core.Run) {
	maxSeg := 2
	ps := paths(maxSeg)
	do := func(c kase) bool {
		if !r.Mine() {
			return !r.Expired()
		}
		r.Guard(c, func() { check(r, c) })
		return true
	}
	r.Section(fmt.Sprintf("file sets: 1 path (%d paths) + module file", len(ps)))
	for _, p := range ps {
		do(kase{Kind: "files", Entries: []entry{{p, "regular", -1, "x" + p}}})
	}
	// a reduced path list for pairs
	var ps2 []string
	for _, p := range ps {
		if strings.Count(p, "/") <= 1 && len(p) < 40 {
			ps2 = append(ps2, p)
		}
	}
	pairStep := 7
	if r.Thorough() {
		pairStep = 1
	}
	r.Section(fmt.Sprintf("file sets: pairs over %d paths (every %dth second element, all collision-relevant pairs)", len(ps2), pairStep))
	for i, p := range ps2 {
		for j, q := range ps2 {
			if j <= i {
				continue
			}
			if (i+j)%pairStep != 0 && !related(p, q) {
				continue
			}
			do(kase{Kind: "files", Entries: []entry{{p, "regular", -1, "1"}, {q, "regular", -1, "22"}}})
		}
		if r.Expired() {
			break
		}
	}
	r.Section("file sets: modes and declared/actual sizes")
	for _, p := range []string{"a", "a/b", "cue.mod/module.cue", "LICENSE", "vendor/a", "cue.mod/vendor/a"} {
		for _, m := range []string{"regular", "symlink", "dir", "device", "setuid"} {
			for _, d := range []int64{-1, 0, 1, 3, 4} {
				do(kase{Kind: "files", Entries: []entry{{p, m, d, "abc"}}})
			}
		}
	}
	r.Section("raw zips: 1 entry x modes x size relations")
	for _, p := range ps {
		for _, m := range []string{"regular", "symlink", "dir", "device", "setuid"} {
			for _, d := range []int64{-1, 0, 2, 4, 100} {
				if len(p) > 100 && (m != "regular" || d != -1) {
					continue
				}
				if (m != "regular" || d != -1) && strings.Count(p, "/") > 0 && !strings.Contains(p, "cue.mod") && !strings.HasPrefix(p, "..") && !strings.HasPrefix(p, "/") {
					continue
				}
				do(kase{Kind: "zip", Entries: []entry{{"cue.mod/module.cue", "regular", -1, modFile}, {p, m, d, "abc"}}})
			}
		}
		if r.Expired() {
			break
		}
	}
	r.Section("raw zips: pairs (duplicates, case collisions, file/dir conflicts, nested cue.mod)")
	for i, p := range ps2 {
		for j, q := range ps2 {
			if j < i {
				continue
			}
			if !related(p, q) && (i+j)%(pairStep*3) != 0 {
				continue
			}
			do(kase{Kind: "zip", Entries: []entry{{"cue.mod/module.cue", "regular", -1, modFile}, {p, "regular", -1, "1"}, {q, "regular", -1, "22"}}})
			do(kase{Kind: "zip", Entries: []entry{{p, "regular", -1, "1"}, {q + "/", "dir", -1, ""}, {"cue.mod/module.cue", "regular", -1, modFile}}})
			if related(p, q) {
				do(kase{Kind: "zip", Entries: []entry{{"cue.mod/module.cue", "regular", -1, modFile}, {p, "dir", -1, "1"}, {q, "regular", -1, "22"}}})
				do(kase{Kind: "zip", Entries: []entry{{"cue.mod/module.cue", "regular", -1, modFile}, {p, "dir", -1, "1"}, {q, "dir", -1, "22"}}})
			}
		}
		if r.Expired() {
			break
		}
	}
	r.Section("declared sizes around the three limits")
	for _, lim := range []struct {
		name string
		n    int64
	}{{"cue.mod/module.cue", modzip.MaxCUEMod}, {"LICENSE", modzip.MaxLICENSE}, {"total", modzip.MaxZipFile}} {
		for _, sz := range []int64{0, 1, lim.n - 1, lim.n, lim.n + 1} {
			for _, mode := range []string{"regular", "dir", "setuid", "symlink"} {
				// the header mode must not matter: an entry without a trailing
				// slash is extracted as a file whatever its mode bits say
				do(kase{Kind: "limit", Limit: lim.name, Size: sz, Entries: []entry{{Mode: mode}}})
			}
		}
	}
	if workerRoot != "" {
		os.RemoveAll(workerRoot)
	}
}

// related: pairs that may collide (case folding, prefix, same directory).
func related(p, q string) bool {
	fp, fq := strings.ToLower(p), strings.ToLower(q)
	return fp == fq || strings.HasPrefix(fq, fp+"/") || strings.HasPrefix(fp, fq+"/") || strings.Contains(p, "cue.mod") && strings.Contains(q, "cue.mod") ||
		strings.ContainsRune(p+q, 'K') && strings.ContainsAny(p+q, "kK")
}

func replay(r *core.Run, raw json.RawMessage) {
	var c kase
	if err := json.Unmarshal(raw, &c); err != nil {
		r.EngineError(err.Error())
		return
	}
	check(r, c)
}

// ---- in-memory files ----

type memFile struct {
	e entry
}
type memInfo struct {
	name string
	size int64
	mode fs.FileMode
}

func (i memInfo) Name() string       { return i.name }
func (i memInfo) Size() int64        { return i.size }
func (i memInfo) Mode() fs.FileMode  { return i.mode }
func (i memInfo) ModTime() time.Time { return time.Time{} }
func (i memInfo) IsDir() bool        { return i.mode.IsDir() }
func (i memInfo) Sys() any           { return nil }

func modeOf(m string) fs.FileMode {
	switch m {
	case "symlink":
		return fs.ModeSymlink | 0o777
	case "dir":
		return fs.ModeDir | 0o755
	case "device":
		return fs.ModeDevice | 0o644
	case "setuid":
		return fs.ModeSetuid | 0o755
	}
	return 0o644
}

type memIO struct{}

func (memIO) Path(f memFile) string { return f.e.Path }
func (memIO) Lstat(f memFile) (os.FileInfo, error) {
	sz := f.e.Declared
	if sz < 0 {
		sz = int64(len(f.e.Content))
	}
	return memInfo{path.Base(f.e.Path), sz, modeOf(f.e.Mode)}, nil
}
func (memIO) Open(f memFile) (io.ReadCloser, error) {
	return io.NopCloser(strings.NewReader(f.e.Content)), nil
}

func keyOf(kind string, c kase) string {
	var parts []string
	for _, e := range c.Entries {
		p := e.Path
		if len(p) > 60 {
			p = p[:20] + "…(long)"
		}
		s := fmt.Sprintf("%q", p)
		if e.Mode != "regular" {
			s += "(" + e.Mode + ")"
		}
		if e.Declared >= 0 {
			s += fmt.Sprintf("[declared %d, actual %d]", e.Declared, len(e.Content))
		}
		parts = append(parts, s)
	}
	return kind + ": " + strings.Join(parts, ", ")
}

var (
	workerRoot string
	scratchN   int
)

func scratch() (parent, target string, cleanup func()) {
	if workerRoot == "" {
		// one directory per worker process: 16 workers creating and deleting
		// entries in one shared directory serialise on its lock
		var err error
		// tmpfs when available: the per-case create/extract/delete cycle is
		// metadata-heavy and serialises on the journal of the root file system
		root := "/verif/.work/tmp"
		if st, err := os.Stat("/dev/shm"); err == nil && st.IsDir() {
			root = "/dev/shm"
		}
		workerRoot, err = os.MkdirTemp(root, fmt.Sprintf("verif-c15-w%d-", os.Getpid()))
		if err != nil {
			panic(err)
		}
	}
	scratchN++
	base := filepath.Join(workerRoot, fmt.Sprint(scratchN))
	if err := os.MkdirAll(base, 0o755); err != nil {
		panic(err)
	}
	parent = filepath.Join(base, "parent")
	target = filepath.Join(parent, "target")
	os.MkdirAll(filepath.Join(parent, "sibling"), 0o755)
	os.WriteFile(filepath.Join(base, "above.txt"), []byte("above"), 0o644)
	os.WriteFile(filepath.Join(parent, "beside.txt"), []byte("beside"), 0o644)
	os.WriteFile(filepath.Join(parent, "sibling", "s.txt"), []byte("s"), 0o644)
	return parent, target, func() {
		filepath.WalkDir(base, func(p string, d fs.DirEntry, err error) error {
			if err == nil && d.IsDir() {
				os.Chmod(p, 0o755)
			}
			return nil
		})
		os.RemoveAll(base)
	}
}

// snapshot lists everything under root except the subtree skip.
func snapshot(root, skip string) string {
	var items []string
	filepath.WalkDir(root, func(p string, d fs.DirEntry, err error) error {
		if err != nil {
			return nil
		}
		if p == skip {
			return filepath.SkipDir
		}
		info, _ := os.Lstat(p)
		s := p + " " + info.Mode().String()
		if info.Mode().IsRegular() {
			b, _ := os.ReadFile(p)
			s += fmt.Sprintf(" %q", b)
		}
		items = append(items, s)
		return nil
	})
	sort.Strings(items)
	return strings.Join(items, "\n")
}

// readTree returns path -> content of everything below dir; irregular entries
// are reported in bad.
func readTree(dir string) (files map[string]string, bad []string) {
	files = map[string]string{}
	filepath.WalkDir(dir, func(p string, d fs.DirEntry, err error) error {
		if err != nil || p == dir {
			return nil
		}
		info, err := os.Lstat(p)
		if err != nil {
			return nil
		}
		rel, _ := filepath.Rel(dir, p)
		switch {
		case info.IsDir():
		case info.Mode().IsRegular():
			b, _ := os.ReadFile(p)
			files[filepath.ToSlash(rel)] = string(b)
		default:
			bad = append(bad, rel+" "+info.Mode().String())
		}
		return nil
	})
	return
}

func check(r *core.Run, c kase) {
	switch c.Kind {
	case "files":
		checkFiles(r, c)
	case "zip":
		checkZip(r, c)
	case "limit":
		checkLimit(r, c)
	}
}

// foldCollision returns two different path prefixes of the given paths that are
// equal under Unicode case folding ("" if there are none).
func foldCollision(paths []string) (string, string) {
	seen := map[string]bool{}
	var all []string
	for _, p := range paths {
		parts := strings.Split(p, "/")
		for i := 1; i <= len(parts); i++ {
			q := strings.Join(parts[:i], "/")
			if !seen[q] {
				seen[q] = true
				all = append(all, q)
			}
		}
	}
	for i, a := range all {
		for _, b := range all[i+1:] {
			if a != b && strings.EqualFold(a, b) {
				return a, b
			}
		}
	}
	return "", ""
}

func sortedSet(s []string) string {
	t := append([]string{}, s...)
	sort.Strings(t)
	return strings.Join(t, "|")
}

func checkFiles(r *core.Run, c kase) {
	files := []memFile{{entry{"cue.mod/module.cue", "regular", -1, modFile}}}
	hasMod := false
	for _, e := range c.Entries {
		if e.Path == "cue.mod/module.cue" {
			hasMod = true
		}
	}
	if hasMod {
		files = nil
	}
	for _, e := range c.Entries {
		files = append(files, memFile{e})
	}
	r.Trans(1)
	cf, cfErr := modzip.CheckFiles(files, memIO{})
	var buf bytes.Buffer
	createErr := modzip.Create(&buf, mv, files, memIO{})
	// Create must succeed exactly when the checked file list has no error and
	// the contents match their declared sizes.
	lying := false
	for _, e := range c.Entries {
		if e.Declared >= 0 && e.Declared < int64(len(e.Content)) && (e.Mode == "regular" || e.Mode == "setuid") {
			lying = true
		}
	}
	if (cfErr == nil) != (createErr == nil) && !lying {
		r.Violation(keyOf("CheckFiles and Create disagree", c), c, fmt.Sprintf("CheckFiles err=%v\nCreate err=%v", cfErr, createErr))
		return
	}
	if createErr != nil {
		r.Outcome("create:rejected")
		r.Nontrivial()
		r.State(keyOf("", c))
		return
	}
	// an accepted file set can be extracted on a case-insensitive file system:
	// no two different spellings of a file or directory path (any prefix of a
	// valid path) are equal under case folding
	if a, b := foldCollision(cf.Valid); a != "" {
		r.Violation(keyOf("accepted file set contains a case-insensitive collision", c), c, fmt.Sprintf("%q and %q differ only in case; valid=%v", a, b, cf.Valid))
		return
	}
	// every archive the creator emits passes the archive checks
	zr := bytes.NewReader(buf.Bytes())
	_, _, zcf, zerr := modzip.CheckZip(mv, zr, int64(buf.Len()))
	if zerr != nil {
		r.Violation(keyOf("Create emitted an archive that CheckZip rejects", c), c, zerr.Error())
		return
	}
	if sortedSet(zcf.Valid) != sortedSet(cf.Valid) {
		r.Violation(keyOf("CheckFiles.Valid and CheckZip.Valid of the created archive differ", c), c, fmt.Sprintf("files: %v\nzip: %v", cf.Valid, zcf.Valid))
		return
	}
	// extract
	parent, target, cleanup := scratch()
	defer cleanup()
	zipPath := filepath.Join(filepath.Dir(parent), "m.zip")
	os.WriteFile(zipPath, buf.Bytes(), 0o644)
	before := snapshot(filepath.Dir(parent), target)
	if err := modzip.Unzip(target, mv, zipPath); err != nil {
		r.Violation(keyOf("Unzip fails on an archive emitted by Create", c), c, err.Error())
		return
	}
	if after := snapshot(filepath.Dir(parent), target); after != before {
		r.Violation(keyOf("Unzip changed something outside the target directory", c), c, fmt.Sprintf("before:\n%s\nafter:\n%s", before, after))
		return
	}
	got, bad := readTree(target)
	if len(bad) > 0 {
		r.Violation(keyOf("Unzip created an irregular file", c), c, strings.Join(bad, "\n"))
		return
	}
	want := map[string]string{}
	for _, f := range files {
		for _, v := range cf.Valid {
			if v == f.e.Path {
				want[v] = f.e.Content
			}
		}
	}
	if fmt.Sprint(got) != fmt.Sprint(want) {
		r.Violation(keyOf("extracted tree differs from the valid file set", c), c, fmt.Sprintf("want %v\ngot  %v", want, got))
		return
	}
	// CheckDir on the extracted tree agrees with CheckFiles
	dcf, derr := modzip.CheckDir(target)
	for i, v := range dcf.Valid { // CheckDir reports file system paths
		if rel, err := filepath.Rel(target, v); err == nil {
			dcf.Valid[i] = filepath.ToSlash(rel)
		}
	}
	// documented asymmetry: CheckDir/CreateFromDir skip .bzr, .git, .hg, .svn
	var cfNoVCS []string
	for _, v := range cf.Valid {
		vcs := false
		segsOf := strings.Split(v, "/")
		for _, seg := range segsOf[:len(segsOf)-1] { // directories only
			if seg == ".git" || seg == ".hg" || seg == ".bzr" || seg == ".svn" {
				vcs = true
			}
		}
		if !vcs {
			cfNoVCS = append(cfNoVCS, v)
		}
	}
	if derr != nil || sortedSet(dcf.Valid) != sortedSet(cfNoVCS) {
		r.Violation(keyOf("CheckDir of the extracted tree disagrees with CheckFiles", c), c, fmt.Sprintf("CheckDir valid=%v err=%v\nCheckFiles valid=%v", dcf.Valid, derr, cf.Valid))
		return
	}
	r.Outcome("roundtrip:ok")
	if len(cf.Omitted) > 0 || len(cf.Valid) > 1 {
		r.Nontrivial()
		r.Sample(map[string]any{"files": c.Entries, "valid": cf.Valid, "omitted": len(cf.Omitted)})
	}
	r.State(keyOf("", c))
}

// rawZip builds an archive with arbitrary names, modes and declared sizes.
func rawZip(entries []entry) []byte {
	var buf bytes.Buffer
	zw := zip.NewWriter(&buf)
	for _, e := range entries {
		var comp bytes.Buffer
		fw, _ := flate.NewWriter(&comp, flate.DefaultCompression)
		fw.Write([]byte(e.Content))
		fw.Close()
		h := &zip.FileHeader{Name: e.Path, Method: zip.Deflate}
		h.SetMode(modeOf(e.Mode))
		h.CRC32 = crc32.ChecksumIEEE([]byte(e.Content))
		h.CompressedSize64 = uint64(comp.Len())
		h.UncompressedSize64 = uint64(len(e.Content))
		if e.Declared >= 0 {
			h.UncompressedSize64 = uint64(e.Declared)
		}
		if strings.HasSuffix(e.Path, "/") {
			// a real directory entry; an entry with the directory mode bit but
			// no trailing slash keeps its data (Unzip extracts it as a file)
			h.Method = zip.Store
			h.CompressedSize64, h.UncompressedSize64, h.CRC32 = 0, 0, 0
			comp.Reset()
		}
		w, err := zw.CreateRaw(h)
		if err != nil {
			continue
		}
		w.Write(comp.Bytes())
	}
	zw.Close()
	return buf.Bytes()
}

func checkZip(r *core.Run, c kase) {
	data := rawZip(c.Entries)
	parent, target, cleanup := scratch()
	defer cleanup()
	base := filepath.Dir(parent)
	zipPath := filepath.Join(base, "m.zip")
	os.WriteFile(zipPath, data, 0o644)
	before := snapshot(base, target)
	// an absolute-path victim that must never appear
	r.Trans(1)
	err := modzip.Unzip(target, mv, zipPath)
	if after := snapshot(base, target); after != before {
		r.Violation(keyOf("Unzip changed something outside the target directory", c), c, fmt.Sprintf("err=%v\nbefore:\n%s\nafter:\n%s", err, before, after))
		return
	}
	got, bad := readTree(target)
	if len(bad) > 0 {
		r.Violation(keyOf("Unzip created an irregular file", c), c, fmt.Sprintf("err=%v\n%s", err, strings.Join(bad, "\n")))
		return
	}
	if err != nil {
		r.Outcome("hostile:rejected")
		// three-checker agreement: a path CheckFiles marks invalid for a
		// name/collision reason must not have been extracted
		r.Nontrivial()
		r.State(keyOf("", c))
		return
	}
	// success: everything regular (checked), sizes as declared, content as given
	for _, e := range c.Entries {
		if strings.HasSuffix(e.Path, "/") {
			continue
		}
		g, ok := got[e.Path]
		if !ok {
			r.Violation(keyOf("Unzip succeeded but an entry was not extracted", c), c, fmt.Sprintf("missing %q; got %v", e.Path, got))
			return
		}
		decl := int64(len(e.Content))
		if e.Declared >= 0 {
			decl = e.Declared
		}
		if int64(len(g)) > decl {
			r.Violation(keyOf("Unzip wrote more bytes than declared", c), c, fmt.Sprintf("%q: declared %d, wrote %d", e.Path, decl, len(g)))
			return
		}
		if g != e.Content {
			r.Violation(keyOf("Unzip succeeded with content that differs from the entry", c), c, fmt.Sprintf("%q: %q vs %q", e.Path, g, e.Content))
			return
		}
	}
	// agreement with the file-list checker: everything extracted must be valid
	// for CheckFiles too (same logical set, regular files)
	var files []memFile
	for _, e := range c.Entries {
		if strings.HasSuffix(e.Path, "/") {
			continue // a directory entry; anything else is extracted as a file
		}
		files = append(files, memFile{entry{e.Path, "regular", -1, e.Content}})
	}
	cf, _ := modzip.CheckFiles(files, memIO{})
	valid := map[string]bool{}
	for _, v := range cf.Valid {
		valid[v] = true
	}
	for p := range got {
		if !valid[p] {
			r.Violation(keyOf("a zip entry was extracted that CheckFiles rejects or omits as a file", c), c, fmt.Sprintf("%q extracted; CheckFiles: valid=%v invalid=%v omitted=%v", p, cf.Valid, cf.Invalid, cf.Omitted))
			return
		}
	}
	r.Outcome("hostile:extracted-safely")
	r.State(keyOf("", c))
}

func checkLimit(r *core.Run, c kase) {
	r.Trans(1)
	name := c.Limit
	zmode := "regular"
	if len(c.Entries) > 0 && c.Entries[0].Mode != "" {
		zmode = c.Entries[0].Mode
	}
	files := []memFile{}
	var zipEntries []entry
	switch name {
	case "cue.mod/module.cue":
		files = append(files, memFile{entry{name, "regular", c.Size, modFile}})
		zipEntries = []entry{{name, zmode, c.Size, modFile}}
	case "LICENSE":
		files = append(files, memFile{entry{"cue.mod/module.cue", "regular", -1, modFile}}, memFile{entry{name, "regular", c.Size, "x"}})
		zipEntries = []entry{{"cue.mod/module.cue", "regular", -1, modFile}, {name, zmode, c.Size, "x"}}
	default: // total
		files = append(files, memFile{entry{"cue.mod/module.cue", "regular", -1, modFile}}, memFile{entry{"big", "regular", c.Size - int64(len(modFile)), "x"}})
		zipEntries = []entry{{"cue.mod/module.cue", "regular", -1, modFile}, {"big", zmode, c.Size - int64(len(modFile)), "x"}}
		if c.Size < int64(len(modFile)) {
			r.Outcome("limit:ok")
			return
		}
	}
	lim := map[string]int64{"cue.mod/module.cue": modzip.MaxCUEMod, "LICENSE": modzip.MaxLICENSE, "total": modzip.MaxZipFile}[name]
	wantOK := c.Size <= lim
	_, ferr := modzip.CheckFiles(files, memIO{})
	data := rawZip(zipEntries)
	_, _, _, zerr := modzip.CheckZip(mv, bytes.NewReader(data), int64(len(data)))
	if (ferr == nil) != wantOK || (zerr == nil) != wantOK {
		r.Violation(fmt.Sprintf("size limit %s at %d (zip entry mode %s): want ok=%v, CheckFiles ok=%v, CheckZip ok=%v", name, c.Size, zmode, wantOK, ferr == nil, zerr == nil), c, fmt.Sprintf("CheckFiles: %v\nCheckZip: %v", ferr, zerr))
		return
	}
	r.Outcome("limit:ok")
	r.Nontrivial()
}
