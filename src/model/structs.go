package model

import (
	"regexp"
	"sort"
	"strings"
)

// ---- struct membership model (C05) ----

// SVal is a field value constraint in a schema.
type SVal struct {
	Kind string  // "int", "1", "struct"
	S    *Schema // for Kind == "struct"
}

type SField struct {
	Label  string
	Marker string // "", "?", "!"
	Val    SVal
}

type SPat struct {
	Src string // pattern expression, e.g. `=~"^a"`, `string`, `"b"`
	Val SVal
}

func (p SPat) Match(label string) bool {
	switch {
	case p.Src == "string":
		return true
	case strings.HasPrefix(p.Src, "=~"):
		re := regexp.MustCompile(strings.Trim(p.Src[2:], `"`))
		return re.MatchString(label)
	default:
		return strings.Trim(p.Src, `"`) == label
	}
}

// Schema is a struct literal with its closedness.
type Schema struct {
	Fields    []SField
	Pats      []SPat
	Ellipsis  bool
	Embeds    []*Schema
	CloseHere bool   // wrapped in close()
	Def       bool   // the literal is the body of a definition (closed recursively)
	DefName   string // when Def and referenced by name (embedding or reach)
}

// Lit renders the struct literal (without close()/definition wrapping of the
// top level; embedded schemas are rendered with theirs).
func (s *Schema) Lit() string {
	var parts []string
	for _, f := range s.Fields {
		parts = append(parts, f.Label+f.Marker+": "+f.Val.src())
	}
	for _, p := range s.Pats {
		parts = append(parts, "["+p.Src+"]: "+p.Val.src())
	}
	for _, e := range s.Embeds {
		parts = append(parts, e.Ref())
	}
	if s.Ellipsis {
		parts = append(parts, "...")
	}
	return "{" + strings.Join(parts, ", ") + "}"
}

// Ref renders how the schema is referred to: #Name, close({...}) or {...}.
func (s *Schema) Ref() string {
	switch {
	case s.Def && s.DefName != "":
		return s.DefName
	case s.CloseHere:
		return "close(" + s.Lit() + ")"
	default:
		return s.Lit()
	}
}

func (v SVal) src() string {
	if v.Kind == "struct" {
		return v.S.Ref()
	}
	return v.Kind
}

// DVal is a concrete data value: the int 1, the string "x", or a struct.
type DVal struct {
	Kind   string // "1", "x", "struct"
	Fields map[string]DVal
}

func (d DVal) Src() string {
	switch d.Kind {
	case "1":
		return "1"
	case "x":
		return `"x"`
	}
	var keys []string
	for k := range d.Fields {
		keys = append(keys, k)
	}
	sort.Strings(keys)
	var parts []string
	for _, k := range keys {
		parts = append(parts, k+": "+d.Fields[k].Src())
	}
	return "{" + strings.Join(parts, ", ") + "}"
}

type conj struct {
	s         *Schema
	closedRec bool // inherited recursive closedness (inside a definition)
	// group identifies the top-level conjunct (one reference / literal) this
	// sub-schema comes from: closedness is per conjunct, so several struct
	// literals for the same field inside one definition widen each other.
	group int
}

var nextGroup = 1000

func exempt(label string) bool { return strings.HasPrefix(label, "_") || strings.HasPrefix(label, "#") }

// parts returns the schema and everything it embeds, recursively.
func parts(s *Schema) []*Schema {
	out := []*Schema{s}
	for _, e := range s.Embeds {
		out = append(out, parts(e)...)
	}
	return out
}

func isClosed(c conj) bool {
	if c.closedRec || c.s.CloseHere || c.s.Def {
		return true
	}
	for _, e := range c.s.Embeds {
		if isClosed(conj{s: e}) {
			return true
		}
	}
	return false
}

func allowed(s *Schema, label string) bool {
	if s.Ellipsis {
		return true
	}
	for _, f := range s.Fields {
		if f.Label == label {
			return true
		}
	}
	for _, p := range s.Pats {
		if p.Match(label) {
			return true
		}
	}
	for _, e := range s.Embeds {
		if allowed(e, label) { // embeddings widen the enclosing struct
			return true
		}
	}
	return false
}

// Accepts reports whether schemas & data unify successfully (per the property
// statement): every present regular field is allowed by every closed conjunct,
// every constraint matching a present field holds, every required field is
// present. reason explains a rejection.
func Accepts(schemas []*Schema, data map[string]DVal) (ok bool, reason string) {
	var cs []conj
	for i, s := range schemas {
		cs = append(cs, conj{s: s, group: i})
	}
	return unifyStruct(cs, data, "")
}

func unifyStruct(cs []conj, data map[string]DVal, path string) (bool, string) {
	present := map[string]bool{}
	for k := range data {
		present[k] = true
	}
	for _, c := range cs {
		for _, p := range parts(c.s) {
			for _, f := range p.Fields {
				if f.Marker == "" {
					present[f.Label] = true
				}
			}
		}
	}
	var labels []string
	for l := range present {
		labels = append(labels, l)
	}
	sort.Strings(labels)
	// closedness, per group (top-level conjunct)
	groups := map[int][]conj{}
	var gids []int
	for _, c := range cs {
		if _, ok := groups[c.group]; !ok {
			gids = append(gids, c.group)
		}
		groups[c.group] = append(groups[c.group], c)
	}
	for _, g := range gids {
		closed := false
		for _, c := range groups[g] {
			closed = closed || isClosed(c)
		}
		if !closed {
			continue
		}
		for _, l := range labels {
			if exempt(l) {
				continue
			}
			ok := false
			for _, c := range groups[g] {
				ok = ok || allowed(c.s, l)
			}
			if !ok {
				return false, path + l + ": not allowed by closed conjunct " + groups[g][0].s.Ref()
			}
		}
	}
	// required
	for _, c := range cs {
		for _, p := range parts(c.s) {
			for _, f := range p.Fields {
				if f.Marker == "!" && !present[f.Label] {
					return false, path + f.Label + ": required but not present"
				}
			}
		}
	}
	// constraints on present fields
	for _, l := range labels {
		var scal []string
		var subs []conj
		for _, c := range cs {
			rec := c.closedRec || c.s.Def
			for _, p := range parts(c.s) {
				recP := rec || p.Def
				add := func(v SVal) {
					if v.Kind == "struct" {
						g := c.group
						if v.S.CloseHere || v.S.Def && v.S.DefName != "" {
							// a definition reference or close() call as a field
							// value closes on its own: other declarations of the
							// same field do not widen it
							nextGroup++
							g = nextGroup
						}
						subs = append(subs, conj{s: v.S, closedRec: recP, group: g})
					} else {
						scal = append(scal, v.Kind)
					}
				}
				for _, f := range p.Fields {
					if f.Label == l {
						add(f.Val)
					}
				}
				if !exempt(l) {
					for _, pt := range p.Pats {
						if pt.Match(l) {
							add(pt.Val)
						}
					}
				}
			}
		}
		d, has := data[l]
		var sub map[string]DVal
		if has {
			switch d.Kind {
			case "struct":
				sub = d.Fields
				if len(scal) > 0 {
					return false, path + l + ": struct data against scalar constraint"
				}
			case "x":
				if len(scal) > 0 {
					return false, path + l + `: "x" against int constraint`
				}
				if len(subs) > 0 {
					return false, path + l + ": scalar data against struct constraint"
				}
			case "1":
				if len(subs) > 0 {
					return false, path + l + ": scalar data against struct constraint"
				}
			}
		}
		if len(scal) > 0 && len(subs) > 0 {
			return false, path + l + ": scalar and struct constraints conflict"
		}
		if len(subs) > 0 {
			if sub == nil {
				sub = map[string]DVal{}
			}
			if ok, why := unifyStruct(subs, sub, path+l+"."); !ok {
				return false, why
			}
		}
	}
	return true, ""
}
