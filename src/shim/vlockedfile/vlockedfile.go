// Package vlockedfile mirrors the part of
// github.com/rogpeppe/go-internal/lockedfile that the module cache uses
// (MutexAt(path).Lock()). Creating the lock file is a file-system effect of
// the calling simulated process; holding the lock is modelled so that the
// controlled scheduler sees who blocks on whom, and a killed process releases
// its locks as the kernel would.
package vlockedfile

import (
	"github.com/rogpeppe/go-internal/lockedfile"

	"cuelang.org/go/internal/verif/shim/vos"
)

type Mutex struct {
	Path string
}

func MutexAt(path string) *Mutex { return &Mutex{Path: path} }

func (mu *Mutex) Lock() (unlock func(), err error) {
	if vos.Current() == nil {
		return lockedfile.MutexAt(mu.Path).Lock()
	}
	// lockedfile opens the file with O_CREATE before locking it
	if _, err := vos.Stat(mu.Path); err != nil {
		f, err := vos.OpenFile(mu.Path, vos.O_CREATE|vos.O_RDWR, 0o666)
		if err != nil {
			return nil, err
		}
		f.Close()
	}
	return vos.Flock(mu.Path)
}
