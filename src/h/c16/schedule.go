package c16

import (
	"fmt"
	"strings"

	"cuelang.org/go/internal/verif/core"
	"cuelang.org/go/internal/verif/sched"
	"cuelang.org/go/internal/verif/shim/vos"
	"cuelang.org/go/internal/verif/shim/vsync"
	"cuelang.org/go/mod/modcache"
	"cuelang.org/go/mod/modregistry"
)

// (b) schedule space: simulated processes (separate Cache values, one shared
// directory) x goroutines, every vos call, file lock, sync operation of
// par.Cache and registry call being a scheduling point.

var schedConfigs = []struct {
	name  string
	procs [][]op
	bound [2]int // deviation bound quick / thorough
}{
	{"2 processes x 1 goroutine, same version", [][]op{{{"fetch", "v0.1.0"}}, {{"fetch", "v0.1.0"}}}, [2]int{3, 4}},
	{"1 process x 2 goroutines, same version", [][]op{{{"fetch", "v0.1.0"}, {"fetch", "v0.1.0"}}}, [2]int{3, 4}},
	{"1 process x 2 goroutines, Fetch and ModFile", [][]op{{{"fetch", "v0.1.0"}, {"modfile", "v0.1.0"}}}, [2]int{3, 4}},
	{"2 processes x 1 goroutine, Fetch and ModFile", [][]op{{{"fetch", "v0.1.0"}}, {{"modfile", "v0.1.0"}}}, [2]int{3, 4}},
	{"2 processes x 1 goroutine, two versions", [][]op{{{"fetch", "v0.1.0"}}, {{"fetch", "v0.2.0"}}}, [2]int{2, 3}},
	{"2 processes x 2 goroutines, same version", [][]op{{{"fetch", "v0.1.0"}, {"fetch", "v0.1.0"}}, {{"fetch", "v0.1.0"}, {"modfile", "v0.1.0"}}}, [2]int{2, 3}},
	{"3 processes x 1 goroutine, same version", [][]op{{{"fetch", "v0.1.0"}}, {{"fetch", "v0.1.0"}}, {{"fetch", "v0.1.0"}}}, [2]int{2, 3}},
}

func runSchedules(r *core.Run) {
	sched.Stop = r.Expired // soft time budget: explorations end with Complete=false
	tier := 0
	budget := 400000
	if r.Thorough() {
		tier = 1
		budget = 4000000
	}
	r.Section("schedules of concurrent fetches: simulated processes x goroutines on one cache directory, deviation bounds per configuration")
	for _, sc := range schedConfigs {
		if mine := r.Mine(); (r.Only > 0 && !mine) || r.Expired() {
			continue
		}
		c := kase{Kind: "sched", Name: sc.name, Procs: sc.procs}
		bound := sc.bound[tier]
		r.Guard(c, func() { exploreSchedules(r, c, bound, budget, nil) })
	}
	// one process is killed at effect i while another one fetches the same version
	r.Section("process 0 killed at every effect while process 1 fetches the same version: every schedule with <=2 deviations (thorough 3)")
	w := getWorld()
	dir := freshDir()
	clean := runProc(w, dir, step{Ops: []op{{"fetch", "v0.1.0"}}})
	dropDir(dir)
	for i := 1; i <= clean.effects; i++ {
		if mine := r.Mine(); (r.Only > 0 && !mine) || r.Expired() {
			continue
		}
		c := kase{Kind: "sched", Name: fmt.Sprintf("process 0 killed at effect %d, process 1 fetches", i), Procs: [][]op{{{"fetch", "v0.1.0"}}, {{"fetch", "v0.1.0"}}}, CrashP0: i}
		crashBound := 2
		if r.Thorough() {
			crashBound = 3
		}
		r.Guard(c, func() { exploreSchedules(r, c, crashBound, budget, nil) })
	}
}

type threadResult struct {
	proc    int
	op      op
	err     string
	problem string
	crashed bool
}

func exploreSchedules(r *core.Run, c kase, bound, budget int, only []int) {
	w := getWorld()
	contended := false
	mk := func() (func(), func(*sched.S) bool) {
		dir := freshDir()
		vos.ResetLocks()
		var results []*threadResult
		var invariant []string
		regs := make([]*faultyReg, len(c.Procs))
		body := func() {
			s := sched.Cur()
			var all vsync.WaitGroup
			for pi, ops := range c.Procs {
				p := &vos.Proc{ID: pi}
				if pi == 0 {
					p.CrashAt = c.CrashP0
				}
				p.Observer = func(p *vos.Proc, op, path string) {
					if msg := stateInvariant(w, dir); msg != "" && len(invariant) < 3 {
						invariant = append(invariant, fmt.Sprintf("after effect %d of process %d (%s %s): %s", p.Effects, p.ID, op, path, msg))
					}
				}
				regs[pi] = newFaulty(w, fault{})
				// one Cache per simulated process, shared by its goroutines; the
				// spawned threads inherit the process tag
				s.SetTag(p)
				cache, err := modcache.New(modregistry.NewClient(regs[pi]), dir)
				if err != nil {
					panic("modcache.New: " + err.Error())
				}
				for _, o := range ops {
					tr := &threadResult{proc: pi, op: o}
					results = append(results, tr)
					all.Add(1)
					sched.Go(func() {
						defer all.Done()
						defer func() {
							if e := recover(); e != nil {
								if _, ok := e.(vos.Crash); !ok {
									panic(e)
								}
								tr.crashed = true
							}
						}()
						var res procResult
						tr.err = doOp(w, cache, o, &res)
						if len(res.problems) > 0 {
							tr.problem = res.problems[0]
						}
					})
				}
				s.SetTag(nil)
			}
			all.Wait()
		}
		check := func(s *sched.S) bool {
			defer dropDir(dir)
			r.Alive()
			fail := func(kind, detail string) bool {
				var choices []int
				for _, p := range s.Points {
					choices = append(choices, p.Chosen)
				}
				c2 := c
				c2.Choices = fmt.Sprint(choices)
				r.Violation(fmt.Sprintf("schedule: %s [%s]", kind, c.Name), c2, fmt.Sprintf("%s\nchoice sequence %v (%d points)", detail, choices, len(s.Points)))
				return false
			}
			switch {
			case s.Deadlock:
				return fail("deadlock", "no thread can continue")
			case s.Horizon:
				return fail("step horizon exceeded (livelock)", "")
			case s.Panic != "":
				return fail("panic", s.Panic)
			}
			if len(invariant) > 0 {
				return fail(classify(invariant[0]), strings.Join(invariant, "\n"))
			}
			for _, tr := range results {
				switch {
				case tr.crashed:
					if tr.proc != 0 || c.CrashP0 == 0 {
						return fail("unexpected crash", fmt.Sprintf("process %d", tr.proc))
					}
				case tr.problem != "":
					return fail(classify(tr.problem), tr.problem)
				case tr.err != "":
					return fail("a concurrent call fails", fmt.Sprintf("process %d %s %s: %s", tr.proc, tr.op.Kind, tr.op.V, tr.err))
				}
			}
			for pi, reg := range regs {
				for v, n := range reg.zipGets {
					if n > 1 {
						return fail("more than one download of a version in one process", fmt.Sprintf("process %d downloaded %s %d times", pi, v, n))
					}
					if n == 1 && pi > 0 && regs[0].zipGets[v] == 1 {
						contended = true // two processes both went to the registry: they raced for the lock
					}
				}
			}
			if msg := stateInvariant(w, dir); msg != "" {
				return fail(classify(msg), "at the end: "+msg)
			}
			for _, v := range []string{"v0.1.0", "v0.2.0"} {
				if msg := probe(w, dir, v); msg != "" {
					return fail("FetchFromCache hands out an incomplete directory", msg)
				}
			}
			return true
		}
		return body, check
	}
	if only != nil {
		body, check := mk()
		s := sched.Run(only, 400000, false, body)
		if s.Diverged != "" {
			r.EngineError("replay diverged: " + s.Diverged)
			return
		}
		check(s)
		return
	}
	res := sched.ExploreSharded(bound, 400000, budget, r.Own, mk)
	if res.EngineError != "" {
		r.EngineError(res.EngineError + " [" + c.Name + "]")
		return
	}
	r.Trans(int(res.Points))
	r.Trace(res.Executions)
	r.Count("schedules", res.Executions)
	if !res.Complete {
		r.Count("schedule_subtrees_cut_by_budget", 1)
	}
	r.Outcome("schedule:ok")
	if contended {
		r.Outcome("schedule:two-processes-downloaded")
	}
	if r.ShardK == 0 {
		r.Nontrivial()
		r.State("sched:" + c.Name)
		r.Sample(map[string]any{"configuration": c.Name, "schedules_in_this_worker": res.Executions, "deviation_bound": bound, "complete": res.Complete, "max_choice_points": res.MaxPointsPerExec})
	}
}

func replaySchedule(r *core.Run, c kase) {
	var choices []int
	for _, f := range strings.Fields(strings.Trim(c.Choices, "[]")) {
		var x int
		fmt.Sscan(f, &x)
		choices = append(choices, x)
	}
	if c.Choices == "" {
		exploreSchedules(r, c, 1, 0, nil)
		return
	}
	exploreSchedules(r, c, 0, 0, choices)
}
